#!/venv/bin/python
"""usage: tools/mk_regress.py <SEED_REPLAY_ROOT>   (the per-change replay directories written by tools/run_seeded.sh)

Rebuilds the regression tier regress/<PROP>/sens-<change>-<clause>.json from the shrunk failing cases of the
seeded changes and mutants: one file per (change, clause).  Every candidate is first replayed against the unchanged
tree (/repo); only cases that pass there are kept, a case that fails there is reported loudly (it would be a false
alarm of the check or a real defect) and not written."""
import glob
import json
import os
import subprocess
import sys
from concurrent.futures import ThreadPoolExecutor

here = os.path.dirname(os.path.dirname(os.path.abspath(__file__)))
root = sys.argv[1]
jobs = []
for d in sorted(os.listdir(root)):
    for f in sorted(glob.glob(os.path.join(root, d, "*.json"))):
        try:
            j = json.load(open(f))
        except Exception:
            continue
        jobs.append((d, f, j))
seen = set()
todo = []
for d, f, j in jobs:
    key = (d, j["clause"])
    if key in seen:
        continue
    seen.add(key)
    todo.append((d, f, j))


def run(item):
    d, f, j = item
    env = dict(os.environ, VERIF_NO_REGRESS="1", VERIF_EVIDENCE_DIR="/tmp/hv-ev-scratch", VERIF_REPLAY_DIR="/tmp/hv-ev-scratch/replays")
    env.pop("VERIF_REPO", None)
    p = subprocess.run(["/venv/bin/python", "-m", "hv.run", j["property"], "--replay", f], cwd=here, env=env, capture_output=True, text=True)
    return item, p.returncode, (p.stdout + p.stderr)[-600:]


bad = 0
new = {}
with ThreadPoolExecutor(12) as ex:
    for (d, f, j), rc, out in ex.map(run, todo):
        if rc != 0:
            bad += 1
            print(f"FAILS-ON-CLEAN-TREE {d} {f} rc={rc}\n{out}")
            continue
        new[os.path.join(here, "regress", j["property"], f"sens-{d}-{j['clause']}.json")] = j
for old in glob.glob(os.path.join(here, "regress", "*", "sens-*.json")):
    os.remove(old)
for path, j in new.items():
    os.makedirs(os.path.dirname(path), exist_ok=True)
    with open(path, "w") as fh:
        json.dump(j, fh, indent=1, sort_keys=True)
print(f"{len(new)} regression cases written, {bad} candidates failed on the clean tree")
sys.exit(1 if bad else 0)
