#!/bin/bash
# usage: tools/mutant.sh <patch-or-sed-script> <PROP> [extra hv.run args]
# Copies /repo to a scratch dir outside /repo and /verif, applies the patch, runs the
# quick check of PROP against the copy (VERIF_REPO), prints the exit status, removes the copy.
set -u
patch="$(realpath "$1")"; prop="$2"; shift 2
d=$(mktemp -d /tmp/hvmut.XXXXXX)
trap 'rm -rf "$d"' EXIT
rsync -a --exclude .git --exclude '__pycache__' /repo/ "$d/repo/"
if ! (cd "$d/repo" && patch -p1 -s < "$patch"); then echo "PATCH-FAILED $patch"; exit 3; fi
cd /verif
VERIF_REPO="$d/repo" VERIF_EVIDENCE_DIR="$d/ev" VERIF_REPLAY_DIR="${MUT_REPLAY_DIR:-$d/replays}" /venv/bin/python -m hv.run "$prop" "$@" | grep -E "^(VIOLATION|HARNESS|KNOWN|  clause|C[0-9]+ tier)" | cut -c1-400
echo "exit=${PIPESTATUS[0]}"
