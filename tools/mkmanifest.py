#!/usr/bin/env python3
"""Regenerates /verif/MANIFEST.json from the table below (keeps it schema-valid)."""

import json
import os
import sys

HERE = os.path.dirname(os.path.dirname(os.path.abspath(__file__)))

PY = "/venv/bin/python"

CHECKS = {
    "C01": dict(
        technique="property-based round-trip: Hypothesis-generated element trees rendered, re-read by an independent HTML tokenizer and compared with the tree; exhaustive pass over the tag catalogue",
        text="Generated-input search (Hypothesis, seeded from VERIF_SEED) over element trees with an independent tokenizer as inverse; complete enumeration of catalogue names x child shapes. Held-on-everything-explored, not absence.",
        note="Trusted base: the harness tokenizer T (self-tested at start-up), html.unescape, Hypothesis. Tokenization only - no browser tree construction.",
        ref="2/C01",
    ),
    "C02": dict(
        technique="property-based + exhaustive: all 1,112,064 code points and all short metacharacter strings through html_escape and every child-emitting path; Hypothesis trees with text slots checked by a placeholder-template relation and a lock-step escape matcher",
        text="Complete enumeration of the per-code-point and short-string sub-domains plus seeded generated-input search over tree shapes and ways of adding a child; the oracle is an inverse (decodes back, nothing else changed). Exhaustive on the two finite sub-domains, exploration elsewhere.",
        note="Trusted base: matcher E (self-tested), html.unescape, Hypothesis; assumes layout depends on node kinds only (the placeholder rendering is the template).",
        ref="2/C02",
    ),
    "C03": dict(
        technique="property-based + exhaustive: code points and short strings as attribute values; Hypothesis attribute histories (ctor dicts/keywords, update, item assignment, add_class, add_style, plain x HTML() merges) against a parts model, lock-step matcher and tokenizer read-back",
        text="Complete enumeration of code points / short strings, seeded generated-input search over attribute histories with a reference model of which parts make up each value; inverse oracle per plain part. Found and fixed the plain x HTML() merge defect (known_findings.json).",
        note="Trusted base: matcher E, tokenizer T, html.unescape, the documented merge rules as coded in the harness model.",
        ref="2/C03",
    ),
    "C04": dict(
        technique="property-based algebraic law + metamorphic relation: Hypothesis expression trees over str/HTML/number with +, reflected + and += against an algebraic model (rendering of the result == rendering of the operands as adjacent children, each plain operand escaped exactly once); trusted-slot trees with exact placeholder substitution on every rendering path",
        text="Seeded generated-input search; algebraic oracle for concatenation, exact-substitution metamorphic oracle for HTML() children/attributes, _repr_html_ output and script/style text over get_html_string, str, render, tagify and HTMLDocument. Exploration.",
        note="Trusted base: matcher E, Python operator semantics; _repr_html_ returns str as the protocol declares.",
        ref="2/C04",
    ),
    "C05": dict(
        technique="property-based invariants over arbitrarily nested id-tagged trees: positional containment of the flat concatenation of every block-free sibling run, whitespace-token adjacency rule via the tokenizer; exhaustive sibling-kind triples",
        text="Seeded generated-input search over arbitrary (also invalid) nestings with two independent invariants, plus complete enumeration of parent x sibling-kind triples. Exploration; exhaustive on the triples sub-domain.",
        note="Trusted base: flat() of the layout model L, tokenizer T; content is metacharacter-free (and whitespace-free in the token clause).",
        ref="2/C05",
    ),
    "C06": dict(
        technique="property-based reference model: Hypothesis-generated validly nested trees rendered by an independent line-list layout model L and compared for exact string equality; complete enumeration of all sibling sequences of length <= 3 over 13 node kinds under 9 kinds of parent at two depths against the same model; metamorphic indent-shift / eol-substitution laws",
        text="Seeded generated-input search against a reference renderer written from the documented rule (exact equality for every indent/eol), plus two metamorphic laws that do not depend on the model. Exploration.",
        note="Trusted base: layout model L (self-tested); valid nesting only, metacharacter-free content.",
        ref="2/C06",
    ),
    "C07": dict(
        technique="property-based metamorphic relation: render(tree with metadata nodes at generated positions) == render(tree without), dependency list == inserted objects resolved by the harness resolver; insert-then-remove through the list API; complete enumeration of one / two metadata nodes at every position of every sibling sequence of length <= 3 over 13 node kinds under 9 kinds of parent",
        text="Seeded generated-input search over trees and metadata positions (first/last/between/only child/in a row/inside void/beside a single text, each required to occur); metamorphic oracle. Exploration.",
        note="Trusted base: recipe stripping, harness dependency resolver D.",
        ref="2/C07",
    ),
    "C08": dict(
        technique="model-based history testing: Hypothesis-generated pools of trees/lists/dependencies/documents and interleavings of the read-only operations, structural snapshot before/after every step and memoised results; tagify independence by id-set disjointness and cross-mutation; view agreement; structural-edit equality laws",
        text="Seeded generated histories (one history = one shrinkable value) with a before/after snapshot invariant over everything reachable, plus tagify/equality laws on generated trees and edits. Found and fixed HTMLDocument.render() mutating the caller's <html> tag (known_findings.json). Exploration.",
        note="Trusted base: structural snapshot S (self-tested); payload inside a copied HTMLDependency may be shared (not demanded by the statement).",
        ref="2/C08",
    ),
    "C09": dict(
        technique="property-based reference model: Hypothesis forests with tagifiable objects (Tag / TagList of 0-4 / str / HTML / dependency results, nested) rendered by the library vs. the harness's own substitution expand() followed by a plain render; error clause for un-expanded objects",
        text="Seeded generated-input search against a reference substitution on recipes: html, dependencies, tagify structure, HTMLDocument (content at construction and appended later); raising behaviour of get_html_string on un-expanded objects. Exploration.",
        note="Trusted base: expand() on recipes, snapshot S, resolver D; Tfy.tagify() returns fully tagified expansions as the protocol requires.",
        ref="2/C09",
    ),
    "C10": dict(
        technique="property-based reference model: Hypothesis multisets of dependencies (colliding names, multi-component and suffixed versions) placed anywhere in generated trees vs. the harness's own resolver (integer-tuple version key, first-wins ties, first-occurrence order) decided on identity-tagged recipes; single-vs-list equivalence; complete enumeration of invalid definitions (field x item count x position x form x kind of defect) that must raise",
        text="Seeded generated-input search against an independent resolver; idempotence and placement-independence laws; validation clause enumerates invalid source/item shapes at generated indices. Exploration.",
        note="Trusted base: resolver D and its version key (cross-checked against packaging.Version on a fixed table at start-up).",
        ref="2/C10",
    ),
    "C11": dict(
        technique="property-based differential: Hypothesis documents (fragment / lone body / lone html shapes, dependencies, head_content and tagifiables anywhere, html attribute kwargs, lib_prefix / include_version) rendered by HTMLDocument vs. a document assembled by the harness from Tag primitives and its own dependency URL/markup/listing/resolution model; independent structural reading with the tokenizer",
        text="Seeded generated-input search with a differential oracle (exact string and dependency equality) and a second, structural oracle (doctype, one root, one head, meta charset first, one listing, each URL once in order). Exploration.",
        note="Trusted base: dependency model D (percent-encoder, URL join, markup order), tokenizer T, expand() of C09; Tag rendering itself is the subject of C01-C07.",
        ref="2/C11",
    ),
    "C12": dict(
        technique="property-based file-system round-trip with fault injection: Hypothesis dependency definitions with hostile file names on real temporary source trees (directory / synthetic package / libtest / URL / none), every libdir / include_version / caller / pre-existing-target state; URLs checked against the harness's own percent-encoder, written file re-read by the tokenizer and every local URL resolved to a byte-identical copied file; deleted listed files must make copy_to/save_html raise with the target untouched",
        text="Seeded generated-input and fault search against a file-system oracle (URL -> path -> bytes), with stale-target, bystander-directory and all_files tree-equality checks. Level: fault_enumeration over the generated subsets of missing files plus exploration of definitions/configurations.",
        note="Trusted base: harness percent-encoder (cross-checked with urllib at start-up), urllib.parse.urlsplit/unquote for resolving, tokenizer T; Linux / UTF-8 / case-sensitive file system; temp dirs removed per case.",
        ref="2/C12",
    ),
    "C13": dict(
        technique="property-based round-trip: Hypothesis dependencies with metacharacter-dense fields serialised to the JSON <script> form (frame, case-insensitive end-tag scanner, json inverse), interleaved with arbitrary text and recovered by HTMLTextDocument (field-by-field equality, once per distinct serialisation, exact remaining text, first-occurrence placeholder replacement vs. markup assembled from the harness model D), token-stream agreement with HTMLDocument's head, JSON render mode == direct rendering",
        text="Seeded generated-input search with inverse / differential oracles. Found and fixed the case-sensitive '</script>' neutralisation (known_findings.json). Exploration.",
        note="Trusted base: json, regex scanner for end-tag-like text, dependency model D, tokenizer T; package sources name importable packages when URLs are computed.",
        ref="2/C13",
    ),
    "C14": dict(
        technique="model-based history testing: Hypothesis-generated operation sequences (construction, append, extend, insert, +, reflected +, +=, slicing, repetition; on a TagList and through a Tag) with arbitrarily nested arguments and invalid objects at any depth, against a Python-list model with the harness's own flatten; failure atomicity; is_tag_child / is_tag_node agreement",
        text="Seeded generated histories (one history = one shrinkable value) compared with a reference model after every step. Found and fixed two defects: inherited UserList.__iadd__ and is_tag_child(int) (known_findings.json). Exploration.",
        note="Trusted base: the list model and flatten in the harness; booleans, bare HTML() as an iterable and item/slice assignment are outside the statement.",
        ref="2/C14",
    ),
    "C15": dict(
        technique="property-based reference model: Hypothesis sequences of positional attribute dicts / keywords (colliding raw names, all value types, children interleaved) followed by update / item-assignment steps against a dict model of normalise+merge; consolidate_attrs rebuild equivalence by structural snapshot",
        text="Seeded generated-input / history search against a reference dict model; rebuild round-trip through consolidate_attrs. Exploration.",
        note="Trusted base: the documented normalisation and merge rules as coded in the harness model, snapshot S, matcher E (for plain x HTML merged text).",
        ref="2/C15",
    ),
    "C16": dict(
        technique="model-based history testing: Hypothesis sequences of add_class / remove_class / has_class / add_style on a tag with generated initial class/style values against a whitespace-token-list model (colliding token pool, padded removals, rejected declarations leave the snapshot unchanged); css() against a char-by-char key model and the add_style acceptance law",
        text="Seeded generated histories compared with a token-list model after every step, plus generated css() keyword sets against a reference key transformation. Exploration.",
        note="Trusted base: the token-list / declaration model in the harness; snapshot S for 'rejects without modifying'.",
        ref="2/C16",
    ),
    "C17": dict(
        technique="model-based program testing with injected exceptions: Hypothesis-generated programs of nested with-blocks, displays (all value kinds, invalid values), raises, try/except and re-entry of an active tag, interpreted on real tags under a recording base hook next to a model; hook identity checked in a finally at every block exit, children and outermost-hook deliveries compared with the model",
        text="Seeded generated programs (one program = one shrinkable value); exceptions are injected at generated points (raise statements, invalid displayed values, re-entry). Level: exploration with fault injection over generated exception points.",
        note="Trusted base: the interpreter/model in the harness; display(v) modelled as a direct sys.displayhook(v) call; single-threaded.",
        ref="2/C17",
    ),
    "C18": dict(
        technique="differential testing across configurations: a Hypothesis-generated battery of trees/documents/JSON-mode strings rendered by child interpreters started with different PYTHONHASHSEED values, each in its own order with repeats, digests compared case by case; Hypothesis pairs of head_content payloads for the name-injectivity law",
        text="Seeded battery generation, then a finite sample of interpreter configurations (4 hash seeds quick / 32 thorough) x render orders; all must give identical digests. Plus generated-input search for the head_content name law. Exploration over configurations.",
        note="Trusted base: sha256 digests, subprocess isolation; a nondeterminism that needs one specific hash seed can be missed (stated in evidence).",
        ref="2/C18",
    ),
    "C19": dict(
        technique="exhaustive enumeration + property-based differential: every function object of htmltools.tags / htmltools.svg and the 17 top-level shortcuts (name, default from the project's _INLINE_TAG_NAMES read with ast, explicit/non-bool _add_ws); Hypothesis argument lists applied to every function and compared with Tag(name, ...) by structural snapshot and rendering",
        text="Complete enumeration of the function catalogue (exhaustive: true for that dimension) crossed with seeded generated argument lists; differential oracle against the Tag constructor. ",
        note="Trusted base: ast.literal_eval of scripts/generate_tags.py in the tree under test, snapshot S.",
        ref="2/C19",
    ),
    "C20": dict(
        technique="property-based invariant + round-trip: Hypothesis component trees (components, tags, strings, jsx() expressions, dependencies, tagifiables as children and as prop values; children added by constructor/list/append/extend) converted 1-3 times; purity by structural snapshot, dependency multiset against the model, the generated React.createElement expression re-read by a harness JavaScript-subset reader and compared with the component model; allow-list clause",
        text="Seeded generated-input search with a before/after snapshot invariant and a reader-based round-trip oracle. Found and fixed JSXTag.tagify() mutating its receiver (known_findings.json). Exploration.",
        note="Trusted base: snapshot S, JavaScript reader J (reads the emitted subset, does not execute it), the component model in the harness; strings free of backslashes and line breaks.",
        ref="2/C20",
    ),
}

PENDING_REASON = "check not built yet in this revision (work in progress; see DESIGN.md section 2 for the planned generator and oracle)"


def main() -> None:
    props = [json.loads(l)["id"] for l in open(os.path.join(HERE, "properties.jsonl"))]
    checks = []
    for pid in props:
        c = CHECKS.get(pid)
        if not c or not os.path.exists(os.path.join(HERE, "hv", "checks", pid.lower() + ".py")):
            continue
        checks.append(
            {
                "property_id": pid,
                "quick_cmd": f"{PY} -m hv.run {pid} --tier quick",
                "thorough_cmd": f"{PY} -m hv.run {pid} --tier thorough",
                "evidence_file": f"evidence/{pid}.json",
                "replay_cmd_template": f"{PY} -m hv.run {pid} --replay {{path}}",
                "engine": "hv",
                "level_claimed": {"category": "exploration", "text": c["text"], "design_ref": "DESIGN.md " + c["ref"]},
                "level_note": c["note"],
                "technique": c["technique"],
            }
        )
    claimed = {c["property_id"] for c in checks}
    man = {
        "version": 1,
        "setup_cmd": f"{PY} tools/setup.py",
        "hooks": {
            "guard": "POSIT_DEV_PY_HTMLTOOLS_VERIF",
            "enable": "no source hooks are needed: every property is observable through the public API, sys.displayhook, id() and the file system; checks import htmltools from /repo's working tree (pure Python, nothing to build)",
            "baseline_off_cmd": "cd /repo && /venv/bin/python -m pytest -ra -q -p no:cacheprovider --timeout=900 --continue-on-collection-errors",
            "source_commits": [],
            "add_only": True,
        },
        "engines": [
            {
                "name": "hv",
                "path": "hv/",
                "serves_properties": sorted(claimed),
                "kind_free_text": "Hypothesis 6.168 property-based testing (recipes -> public constructors -> explicit oracles), exhaustive enumeration of small finite sub-domains, multiprocessing shards; replay without Hypothesis",
            }
        ],
        "checks": checks,
        "notes": "All checks: cwd=/verif, read VERIF_SEED / VERIF_TIER, import htmltools from /repo (VERIF_REPO overrides, used only by tools/mutant.sh), rewrite evidence/<id>.json, exit 0/1/2 (2 = harness error, never a verdict).",
        "not_applicable": [{"property_id": p, "reason": PENDING_REASON} for p in props if p not in claimed],
    }
    with open(os.path.join(HERE, "MANIFEST.json"), "w") as f:
        json.dump(man, f, indent=1)
        f.write("\n")
    try:
        import jsonschema

        jsonschema.validate(man, json.load(open("/root/.vp/MANIFEST.schema.json")))
        print("MANIFEST.json valid;", len(checks), "checks")
    except ImportError:
        print("MANIFEST.json written (jsonschema not available to validate);", len(checks), "checks")


if __name__ == "__main__":
    sys.exit(main())
