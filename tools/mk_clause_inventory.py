#!/venv/bin/python
"""Prints a markdown inventory of all clauses (as built) - pasted into DESIGN.md section 10."""
import importlib, os, sys
sys.path.insert(0, "/repo"); sys.path.insert(0, os.path.dirname(os.path.dirname(os.path.abspath(__file__))))
print("| property | clause | cases come from | quick (shards x cases) | thorough | required shape classes |")
print("|---|---|---|---|---|---|")
for i in range(1, 21):
    p = "C%02d" % i
    m = importlib.import_module("hv.checks." + p.lower())
    for c in m.CLAUSES:
        if c.source == "given":
            q = f"{c.shards_quick} x {c.quick}"; t = f"{c.shards_thorough} x {c.thorough}" + (f" + {c.fuzz} coverage-guided" if c.fuzz else "")
            src = "Hypothesis strategy"
        elif c.source == "enum":
            q = t = "complete enumeration"; src = "finite enumeration"
        else:
            q = "4 interpreter processes x 60 battery cases"; t = "32 processes x 300 cases"; src = "generated battery x configurations"
        print(f"| {p} | {c.name} | {src} | {q} | {t} | {', '.join(c.required) or '-'} |")
