#!/bin/bash
# usage: tools/seeded_eval.sh <PROP> <patch.diff> <demo.py> [extra hv.run args]
# Confirms a seeded change (tests pass, demo fails with / passes without) in a scratch copy of /repo
# and runs the property's check against that copy.  Prints one summary line.
prop="$1"; patch="$(realpath "$2")"; demo="$(realpath "$3")"; shift 3
d=$(mktemp -d /tmp/hvseed.XXXXXX)
trap 'rm -rf "$d"' EXIT
rsync -a --exclude .git --exclude '__pycache__' /repo/ "$d/repo/"
if ! (cd "$d/repo" && patch -p1 -s < "$patch" >/dev/null 2>&1); then echo "$prop $(basename $patch): PATCH-FAILED"; exit 3; fi
tests=$(cd "$d/repo" && /venv/bin/python -m pytest -q -p no:cacheprovider 2>&1 | tail -1)
(cd /tmp && /venv/bin/python "$demo" "$d/repo" >/dev/null 2>&1); demo_with=$?
(cd /tmp && /venv/bin/python "$demo" /repo >/dev/null 2>&1); demo_without=$?
cd /verif
out=$(VERIF_REPO="$d/repo" VERIF_EVIDENCE_DIR="$d/ev" VERIF_REPLAY_DIR="$d/replays" /venv/bin/python -m hv.run "$prop" "$@" 2>&1); rc=$?
echo "$prop $(basename $patch): tests=[$tests] demo_with=$demo_with demo_without=$demo_without check_rc=$rc"
echo "$out" | grep -E "^  clause=|HARNESS" | cut -c1-260 | head -4
