#!/bin/bash
# usage: tools/run_all.sh [tier] [seed ...]   -- runs every property's check, prints one line each
tier="${1:-quick}"; shift
seeds="${@:-1}"
cd "$(dirname "$0")/.."
for seed in $seeds; do
  for p in C01 C02 C03 C04 C05 C06 C07 C08 C09 C10 C11 C12 C13 C14 C15 C16 C17 C18 C19 C20; do
    out=$(VERIF_SEED=$seed /venv/bin/python -m hv.run $p --tier $tier 2>&1); rc=$?
    echo "seed=$seed rc=$rc $(echo "$out" | grep -E "^C[0-9]+ tier" )"
    if [ $rc -ne 0 ]; then echo "$out" | grep -E "VIOLATION|HARNESS|clause=" | cut -c1-600; fi
  done
done
