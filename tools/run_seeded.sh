#!/bin/bash
# Runs every seeded change (seeded/<id>/patch.diff) and every mutant (mutants/<cNN>_*.patch) against the quick check
# of its property in scratch copies of /repo; prints "<id> DETECTED|MISSED|ERROR".  usage: [SEED_ONLY=<regex on id>] tools/run_seeded.sh [seeded|mutants|all] [parallelism]
cd "$(dirname "$0")/.."
what="${1:-all}"; par="${2:-4}"
one() {
  id="$1"; prop="$2"; patch="$3"
  d=$(mktemp -d /tmp/hvseed.XXXXXX)
  rsync -a --exclude .git --exclude '__pycache__' /repo/ "$d/repo/"
  if ! (cd "$d/repo" && patch -p1 -s < "$patch" >/dev/null 2>&1); then echo "$id PATCH-FAILED"; rm -rf "$d"; return; fi
  out=$(VERIF_REPO="$d/repo" VERIF_EVIDENCE_DIR="$d/ev" VERIF_REPLAY_DIR="${SEED_REPLAY_ROOT:-$d/replays}${SEED_REPLAY_ROOT:+/$id}" VERIF_JOBS=4 /venv/bin/python -m hv.run "$prop" 2>&1); rc=$?
  clause=$(echo "$out" | grep -E "^  clause=" | head -1 | cut -c1-150)
  case $rc in 1) echo "$id DETECTED $clause";; 0) echo "$id MISSED";; *) echo "$id ERROR rc=$rc $(echo "$out" | grep HARNESS | head -1 | cut -c1-150)";; esac
  rm -rf "$d"
}
export -f one
{
  if [ "$what" != "mutants" ]; then for s in seeded/C*; do id=$(basename $s); echo "$id ${id%%-*} $PWD/$s/patch.diff"; done; fi
  if [ "$what" != "seeded" ]; then for m in mutants/c*.patch; do b=$(basename $m .patch); p=$(echo ${b%%_*} | tr c C); echo "$b $p $PWD/$m"; done; fi
} | grep -E "${SEED_ONLY:-.}" | xargs -P "$par" -L 1 bash -c 'one "$0" "$1" "$2"' | sort
