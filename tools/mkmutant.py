#!/usr/bin/env python3
"""tools/mkmutant.py <name> <file-in-repo> <old> <new> [<old2> <new2> ...] -> mutants/<name>.patch
Creates a unified diff replacing exactly one occurrence of each <old> by <new> in /repo/<file>."""
import difflib, os, sys
name, rel = sys.argv[1], sys.argv[2]
pairs = sys.argv[3:]
src = open(os.path.join("/repo", rel)).read()
new = src
for i in range(0, len(pairs), 2):
    old, rep = pairs[i].encode().decode("unicode_escape"), pairs[i + 1].encode().decode("unicode_escape")
    if new.count(old) != 1:
        sys.exit(f"pattern occurs {new.count(old)} times: {old!r}")
    new = new.replace(old, rep)
diff = "".join(difflib.unified_diff(src.splitlines(True), new.splitlines(True), "a/" + rel, "b/" + rel))
out = os.path.join(os.path.dirname(os.path.dirname(os.path.abspath(__file__))), "mutants", name + ".patch")
open(out, "w").write(diff)
print(out)
