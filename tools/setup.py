#!/usr/bin/env python
"""Offline setup: make sure Hypothesis (and, best effort, atheris) are importable.

Run with /venv/bin/python from /verif.  Nothing is fetched from a network: wheels come
from /opt/veriftools/wheels.  atheris is optional (thorough-tier supplement only).
"""

import importlib
import os
import subprocess
import sys

HERE = os.path.dirname(os.path.dirname(os.path.abspath(__file__)))
WHEELS = "/opt/veriftools/wheels"


def have(mod: str) -> bool:
    try:
        importlib.import_module(mod)
        return True
    except Exception:
        return False


def main() -> int:
    if not have("hypothesis"):
        r = subprocess.run(
            [sys.executable, "-m", "pip", "install", "--no-index", "--find-links", WHEELS, "hypothesis"],
        )
        if r.returncode != 0:
            print("setup: could not install hypothesis")
            return 1
    deps = os.path.join(HERE, ".deps")
    sys.path.insert(0, deps)
    if not have("atheris"):
        subprocess.run(
            [sys.executable, "-m", "pip", "install", "--no-index", "--find-links", WHEELS, "--target", deps, "--no-deps", "atheris"],
            stdout=subprocess.DEVNULL,
            stderr=subprocess.DEVNULL,
        )
    importlib.invalidate_caches()
    print("setup: hypothesis ok; atheris", "ok" if have("atheris") else "unavailable (optional)")
    for d in ("evidence", "replays"):
        os.makedirs(os.path.join(HERE, d), exist_ok=True)
    return 0


if __name__ == "__main__":
    sys.exit(main())
