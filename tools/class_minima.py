#!/venv/bin/python
"""Runs every quick check for several seeds (evidence to a scratch dir) and prints, per required class,
the minimum count observed - required classes must stay far from zero for every seed.
usage: tools/class_minima.py seed [seed ...]"""
import importlib, json, os, subprocess, sys, tempfile
sys.path.insert(0, "/repo"); sys.path.insert(0, os.path.dirname(os.path.dirname(os.path.abspath(__file__))))
seeds = sys.argv[1:] or ["11", "12", "13"]
props = ["C%02d" % i for i in range(1, 21)]
mins = {}
bad = []
for seed in seeds:
    d = tempfile.mkdtemp(prefix="hv-min-")
    for p in props:
        env = dict(os.environ, VERIF_SEED=seed, VERIF_EVIDENCE_DIR=d, VERIF_REPLAY_DIR=d + "/r")
        r = subprocess.run(["/venv/bin/python", "-m", "hv.run", p], env=env, capture_output=True, text=True, cwd=os.path.dirname(os.path.dirname(os.path.abspath(__file__))))
        if r.returncode != 0:
            bad.append((seed, p, r.returncode, [l for l in r.stdout.splitlines() if "VIOLATION" in l or "HARNESS" in l or "clause=" in l][:3]))
        e = json.load(open(os.path.join(d, p + ".json")))
        mod = importlib.import_module("hv.checks." + p.lower())
        for c in mod.CLAUSES:
            cl = e["coverage"]["clauses"].get(c.name, {}).get("classes", {})
            for rq in c.required:
                k = (p, c.name, rq)
                mins[k] = min(mins.get(k, 10**9), cl.get(rq, 0))
    print("seed", seed, "done", flush=True)
for k, v in sorted(mins.items(), key=lambda kv: kv[1])[:25]:
    print(v, *k)
print("non-zero exits:", bad)
