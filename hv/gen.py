"""Shared Hypothesis strategies producing recipes (see hv/build.py for the format)."""

from __future__ import annotations

from hypothesis import strategies as st

# the 16 void element names are part of the *oracle* (hard-coded here, never read from the library)
VOID = (
    "area", "base", "br", "col", "command", "embed", "hr", "img", "input", "keygen",
    "link", "meta", "param", "source", "track", "wbr",
)

HOT = [
    "&", "<", ">", '"', "'", ";", "#", "\r", "\n", " ", "\t", "amp", "lt", "gt", "quot", "#38", "#x26", "/",
    "script", "SCRIPT", "style", "!--", "-->", "]]>", "\x00", "\x85", "\u2028", "\U0001F600", "\u0301", "a", "x",
    "=", "&amp;", "&lt;", "&#", "&#x", "</", "<!", "<?", "\\", "\f", "\x0b", "\xa0", "\xe9", "</b>", "<b>", "&apos;",
    "&quot;", "&#10;", "&#13;", "\r\n",
]

scalar_chars = st.characters(exclude_categories=["Cs"])


def hot_text(max_parts: int = 8):
    return st.lists(st.sampled_from(HOT), max_size=max_parts).map("".join)


def uni_text(max_size: int = 12):
    return st.text(alphabet=scalar_chars, max_size=max_size)


def mixed_text(max_parts: int = 6):
    return st.lists(st.one_of(st.sampled_from(HOT), st.text(alphabet=scalar_chars, max_size=3)), max_size=max_parts).map(
        "".join
    )


def any_text():
    """Full Unicode, metacharacter-dense."""
    return st.one_of(hot_text(), uni_text(), mixed_text())


def safe_text(min_size: int = 0, max_size: int = 6):
    """No markup metacharacters, no whitespace."""
    return st.text(alphabet="abcdefghijkXYZ0123456789_.,:!\xe9\u4e2d", min_size=min_size, max_size=max_size)


def numbers():
    return st.one_of(
        st.integers(min_value=-(10**6), max_value=10**6),
        st.floats(allow_nan=False, allow_infinity=False, width=32),
        st.sampled_from([0, 1, -1, 0.5, 1e21, -0.0, 10**20]),
    )


BLOCK_NAMES = ["div", "p", "ul", "li", "section", "h1", "table", "tr", "td", "form", "blockquote", "body", "head", "main"]
INLINE_NAMES = ["span", "a", "b", "i", "em", "strong", "code", "label", "small", "sub", "u", "q"]
_ALPHA = "abcdefghijklmnopqrstuvwxyzABCDEFGHIJKLMNOPQRSTUVWXYZ"
CUSTOM_NAME = st.builds(
    lambda a, b: a + b, st.sampled_from(_ALPHA), st.text(alphabet=_ALPHA + "0123456789._:-", max_size=12)
)


def catalogue_names() -> list[str]:
    """Names of all generated tag functions of the tree under test (tags + svg)."""
    import inspect

    import htmltools

    out = []
    for mod in (htmltools.tags, htmltools.svg):
        for n, f in vars(mod).items():
            if inspect.isfunction(f) and f.__module__ == mod.__name__ and not n.startswith("_"):
                out.append(n)
    return sorted(set(out))


def attr_raw_names():
    """Raw attribute names that are valid after normalisation (non-empty)."""
    return st.one_of(
        st.sampled_from(["id", "class_", "class", "for_", "data_x", "data-y", "title", "href", "aria_label", "x", "x_", "A_b", "style", "value", "xml:lang", "@click", "_a", ":b"]),
        st.builds(lambda a, b: a + b, st.sampled_from(_ALPHA + ":@"), st.text(alphabet=_ALPHA + "0123456789_.:-", max_size=8)),
        st.builds(lambda b: "_" + b, st.text(alphabet=_ALPHA + "0123456789_.:-", min_size=1, max_size=8)).filter(
            lambda s: norm_attr_name(s) != ""
        ),
    )


def norm_attr_name(x: str) -> str:
    """The documented rule: one trailing underscore removed, remaining underscores -> hyphens."""
    if x.endswith("_"):
        x = x[:-1]
    return x.replace("_", "-")
