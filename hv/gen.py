"""Shared Hypothesis strategies producing recipes (see hv/build.py for the format)."""

from __future__ import annotations

from hypothesis import strategies as st

# the 16 void element names are part of the *oracle* (hard-coded here, never read from the library)
VOID = (
    "area", "base", "br", "col", "command", "embed", "hr", "img", "input", "keygen",
    "link", "meta", "param", "source", "track", "wbr",
)

HOT = [
    "&", "<", ">", '"', "'", ";", "#", "\r", "\n", " ", "\t", "amp", "lt", "gt", "quot", "#38", "#x26", "/",
    "script", "SCRIPT", "style", "!--", "-->", "]]>", "\x00", "\x85", "\u2028", "\U0001F600", "\u0301", "a", "x",
    "=", "&amp;", "&lt;", "&#", "&#x", "</", "<!", "<?", "\\", "\f", "\x0b", "\xa0", "\xe9", "</b>", "<b>", "&apos;",
    "&quot;", "&#10;", "&#13;", "\r\n",
    # C1 controls (numeric references to them decode differently), characters that NFC / NFKC / case folding would
    # change or merge, a combining overlay that composes with < and >, exotic line breaks
    "\x80", "\x9f", "\u212b", "\u2126", "\ufb01", "\uff21", "e\u0301", "\u0338", "<\u0338", "\u037e", "\u00df", "\u0130",
    "\x0b", "\x1c", "\x1d", "\u2029",
    # sequences that mean something to regex replacement templates, format strings and escape processors
    "\\1", "\\n", "\\g<0>", "\\d", "\\\\", "$1", "%s", "{0}", "\\u2014", "%(x)s",
]

scalar_chars = st.characters(exclude_categories=["Cs"])


def opaque(strategy):
    """Keeps Hypothesis from flattening a one_of into an enclosing one_of (which would distort the
    branch probabilities: one_of(.).map is itself flattened, st.builds is not)."""
    return st.builds(lambda x: x, strategy)


def hot_text(max_parts: int = 8):
    return st.lists(st.sampled_from(HOT), max_size=max_parts).map("".join)


def uni_text(max_size: int = 12):
    return st.text(alphabet=scalar_chars, max_size=max_size)


def mixed_text(max_parts: int = 6):
    return st.lists(st.one_of(st.sampled_from(HOT), st.text(alphabet=scalar_chars, max_size=3)), max_size=max_parts).map(
        "".join
    )


def long_text(min_len: int = 64, max_len: int = 700):
    """texts long enough to cross plausible size thresholds (caches, fast paths, line wrapping)"""
    return st.builds(lambda s, n: ((s or "<&>") * (n // max(len(s or "<&>"), 1) + 1))[:n], mixed_text(4), st.integers(min_len, max_len))


MARKUP_TEMPLATES = [
    "<!--%s-->", "<!---->", "<!--%s--!>", "<!DOCTYPE %s>", "<![CDATA[%s]]>", "<?%s?>", "<%s>", "</%s>", "<%s/>", "<b %s>", "<b>%s</b>",
    "&%s;", "&#%s;", "<!%s>", "<script>%s</script>", "<style>%s</style>", "<!-- %s --><b>x</b><!-- %s -->", "{{%s}}", "${%s}", "<%%s%>",
]


def markup_text():
    """texts that are, as a whole, one complete markup construct (comment, declaration, CDATA section, processing
    instruction, tag, character reference, template marker): what a 'pass well-formed X through' shortcut would match"""
    inner = st.one_of(st.sampled_from(["", "x", " x ", "a b", "HEAD_CONTENT", "html", "amp", "60", "x3c", "b", "script", "a-b", "-", "--", "\n"]), hot_text(3), uni_text(4))
    return st.builds(lambda t, a: t.replace("%s", a) if "%s" in t else t, st.sampled_from(MARKUP_TEMPLATES), inner)


def edge_ws_text():
    """texts that begin and / or end with line breaks or blanks (first / last character of an element's content)"""
    ws = st.sampled_from(["\n", "\r\n", "\r", " ", "\t", "\n\n", "\n ", "\f", "\x0b", "\u2028", "\xa0"])
    return st.builds(lambda a, s, b, which: (a if which != 1 else "") + s + (b if which != 0 else ""), ws, mixed_text(3), ws, st.integers(0, 2))


def any_text():
    """Full Unicode, metacharacter-dense; about one in fourteen is long (64-700 characters), one in fourteen a complete
    markup construct, one in fourteen begins / ends with a line break or blank."""
    return st.one_of(hot_text(), uni_text(), mixed_text(), hot_text(), uni_text(), mixed_text(), hot_text(), uni_text(), mixed_text(), hot_text(), mixed_text(), long_text(), markup_text(), edge_ws_text())


def safe_text(min_size: int = 0, max_size: int = 6):
    """No markup metacharacters, no whitespace."""
    return st.text(alphabet="abcdefghijkXYZ0123456789_.,:!\xe9\u4e2d", min_size=min_size, max_size=max_size)


def numbers():
    return st.one_of(
        st.integers(min_value=-(10**6), max_value=10**6),
        st.floats(allow_nan=False, allow_infinity=False, width=32),
        st.sampled_from([0, 1, -1, 0.5, 1e21, -0.0, 10**20]),
    )


BLOCK_NAMES = ["div", "p", "ul", "li", "section", "h1", "table", "tr", "td", "form", "blockquote", "body", "head", "main", "select", "tbody", "datalist", "optgroup", "colgroup", "thead"]
INLINE_NAMES = ["span", "a", "b", "i", "em", "strong", "code", "label", "small", "sub", "u", "q", "pre", "textarea"]
_ALPHA = "abcdefghijklmnopqrstuvwxyzABCDEFGHIJKLMNOPQRSTUVWXYZ"
# ordinary (custom) element names that merely contain / start with the names of the two raw-text elements
RAWISH_NAMES = ["styled-text", "style-guide", "styles", "script-runner", "scripts", "x-style", "my-script", "noscript", "stylesheet"]
CUSTOM_NAME = st.builds(
    lambda a, b: a + b, st.sampled_from(_ALPHA), st.text(alphabet=_ALPHA + "0123456789._:-", max_size=12)
)


# element names with special treatment somewhere in HTML or in pretty-printers (ordinary elements for this library)
SPECIAL_NAMES = ["pre", "textarea", "listing", "table", "thead", "tbody", "tr", "td", "select", "option", "optgroup", "datalist", "title", "a", "svg",
                 "template", "noscript", "iframe", "button", "label", "p", "li", "dd", "dt", "option", "foreignObject", "clipPath", "tspan", "use"]


def catalogue_names() -> list[str]:
    """Names of all generated tag functions of the tree under test (tags + svg)."""
    import inspect

    import htmltools

    out = []
    for mod in (htmltools.tags, htmltools.svg):
        for n, f in vars(mod).items():
            if inspect.isfunction(f) and f.__module__ == mod.__name__ and not n.startswith("_"):
                out.append(n)
    return sorted(set(out))


def attr_raw_names():
    """Raw attribute names that are valid after normalisation (non-empty)."""
    return st.one_of(
        st.sampled_from(["id", "class_", "class", "for_", "data_x", "data-y", "title", "href", "aria_label", "x", "x_", "A_b", "style", "value", "xml:lang", "@click", "_a", ":b"]),
        st.builds(lambda a, b: a + b, st.sampled_from(_ALPHA + ":@"), st.text(alphabet=_ALPHA + "0123456789_.:-", max_size=8)),
        st.builds(lambda b: "_" + b, st.text(alphabet=_ALPHA + "0123456789_.:-", min_size=1, max_size=8)).filter(
            lambda s: norm_attr_name(s) != ""
        ),
    )


def norm_attr_name(x: str) -> str:
    """The documented rule: one trailing underscore removed, remaining underscores -> hyphens."""
    if x.endswith("_"):
        x = x[:-1]
    return x.replace("_", "-")


# ---------------------------------------------------------------------------------
# layout trees (C05 / C06 / C07): block/inline/void tags, text, HTML(), _repr_html_
# objects and metadata; every visible node carries a unique id after number().
# ---------------------------------------------------------------------------------

LAYOUT_TEXT_ALPHA = "abcxyz019_.,:!\xe9"


EXOTIC_BREAKS = "\r\x0b\x0c\x1c\x1d\x85\u2028\u2029"  # characters str.splitlines() / universal newlines treat as line ends


def layout_leaf(newlines: bool = False, meta: bool = True, spaces: bool = False, blank=()):
    """blank: strings (e.g. "", " ", "\t") generated as *unnumbered* text / HTML leaves (empty and whitespace-only content)"""
    alpha = LAYOUT_TEXT_ALPHA + ("\n" + EXOTIC_BREAKS if newlines else "") + (" " if spaces else "")
    txt = st.text(alphabet=alpha, max_size=5)
    leaves = []
    if blank:
        leaves.append(st.builds(lambda s, h: {"k": "html" if h else "text", "s": s, "blank": True}, st.sampled_from(list(blank)), st.sampled_from([False, False, True])))
    leaves += [
        st.builds(lambda s: {"k": "text", "s": s}, txt),
        st.builds(lambda s, sub: {"k": "text", "s": s, "sub": True} if sub else {"k": "text", "s": s}, txt, st.sampled_from([False, False, True])),  # also str-subclass instances
        st.builds(lambda s: {"k": "html", "s": "<i>" + s + "</i>"}, txt),
        st.builds(lambda s: {"k": "html", "s": s}, txt),
        st.builds(lambda s: {"k": "repr", "s": "<u>" + s + "</u>"}, txt),
    ]
    for _ in range(int(meta)):
        leaves.append(
            st.sampled_from(
                [
                    {"k": "meta"},
                    {"k": "dep", "name": "d1", "version": "1.0"},
                    {"k": "dep", "name": "d1", "version": "1.10"},
                    {"k": "dep", "name": "d1", "version": "1.9", "script": [{"src": "a.js"}]},
                    {"k": "dep", "name": "d2", "version": "2.1", "head": "<title>h</title>"},
                    {"k": "headc", "kids": [{"k": "text", "s": "hc"}]},
                ]
            )
        )
    return opaque(st.one_of(*leaves))


def layout_tag(children, max_kids: int = 5):
    kind = st.sampled_from(["block", "block", "inline", "inline", "void-block", "void-inline", "odd"])

    def mk(kind, bi, ii, vi, kids, attr):
        if kind == "block":
            name, ws = BLOCK_NAMES[bi % len(BLOCK_NAMES)], True
        elif kind == "inline":
            name, ws = INLINE_NAMES[ii % len(INLINE_NAMES)], False
        elif kind.startswith("void"):
            name, ws = VOID[vi % len(VOID)], kind == "void-block"
            if vi % 2:
                kids = [k for k in kids if k["k"] in ("meta", "dep", "headc")]
        else:
            # name and flag disagree / raw-text names with plain content
            name, ws = (["span", "div", "script", "style", "pre", "x-y"][bi % 6], bool(ii % 2))
        attrs = [["class", "c" + str(attr)]] if attr else []
        if attr == 3:
            # a wide opening tag (several attributes, > 120 columns)
            attrs = [["class", "c3"], ["title", "t" * 70], ["data-k", "v" * 60]]
        return {"k": "tag", "name": name, "ws": ws, "attrs": attrs, "kids": kids}

    return st.builds(
        mk,
        kind,
        st.integers(0, 50),
        st.integers(0, 50),
        st.integers(0, 50),
        st.one_of(st.lists(children, min_size=2, max_size=max_kids), st.lists(children, min_size=1, max_size=max_kids), st.lists(children, max_size=2)),
        st.sampled_from([0, 0, 1, 2, 3]),
    )


def layout_tree(newlines: bool = False, meta: bool = True, depth: int = 3, spaces: bool = False, max_kids: int = 4, blank=()):
    """Explicit levels instead of st.recursive, so that nested shapes are frequent."""
    leaf = layout_leaf(newlines, meta, spaces, blank)
    node = leaf
    for _ in range(depth):
        node = st.one_of(leaf, layout_tag(node, max_kids), layout_tag(node, max_kids))
    return layout_tag(node, max_kids)


def layout_forest(newlines: bool = False, meta: bool = True, max_roots: int = 3, spaces: bool = False, depth: int = 2, blank=()):
    return st.lists(
        st.one_of(layout_tree(newlines, meta, depth, spaces, blank=blank), layout_tree(newlines, meta, depth, spaces, blank=blank), layout_leaf(newlines, meta, spaces, blank)),
        min_size=0,
        max_size=max_roots,
    )


def make_valid(n, inside_inline: bool = False):
    """Force valid nesting: no whitespace-enabled tag below an inline tag."""
    if n["k"] != "tag":
        return n
    ws = n["ws"] and not inside_inline
    return dict(n, ws=ws, kids=[make_valid(k, inside_inline or not ws) for k in n["kids"]])


def number(nodes, counter=None):
    """Give every visible node a unique id: data-n on tags, 't<k>:' prefix in leaves."""
    if counter is None:
        counter = [0]
    out = []
    for n in nodes:
        k = n["k"]
        if k == "tag":
            i = counter[0]
            counter[0] += 1
            kids = number(n["kids"], counter)
            out.append(dict(n, attrs=[["data-n", str(i)]] + list(n.get("attrs", [])), kids=kids, id=i))
        elif n.get("blank"):
            out.append(n)
        elif k == "text":
            i = counter[0]
            counter[0] += 1
            out.append(dict(n, s="t%d:" % i + n["s"], id=i))
        elif k == "html":
            i = counter[0]
            counter[0] += 1
            out.append(dict(n, s="h%d:" % i + n["s"], id=i))
        elif k == "repr":
            i = counter[0]
            counter[0] += 1
            out.append(dict(n, s="r%d:" % i + n["s"], id=i))
        else:
            out.append(n)
    return out


def share_some(nodes, pick: int, counter=None):
    """Deterministic transform (driven by the generated integer ``pick``): in some tags one child is repeated later in
    the same child list *as the same object* (both occurrences carry the same "share" key; build(..., memo={}) reuses it)."""
    if counter is None:
        counter = [0]
    out = []
    for n in nodes:
        if n["k"] == "tag":
            kids = share_some(n["kids"], pick // 3 + 1, counter)
            if kids and (pick + len(kids) + counter[0]) % 3 == 0:
                j = (pick // 5) % len(kids)
                if kids[j]["k"] in ("tag", "text", "html", "repr", "dep", "meta", "headc"):
                    counter[0] += 1
                    shared = dict(kids[j], share="s%d" % counter[0])
                    kids = kids[:j] + [shared] + kids[j + 1 :]
                    reps = 1 + (pick // 7) % 2
                    at = len(kids) if (pick // 11) % 2 else min(len(kids), j + 2)
                    kids = kids[:at] + [shared] * reps + kids[at:]
            out.append(dict(n, kids=kids))
        else:
            out.append(n)
    return out
