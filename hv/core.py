"""Runner infrastructure: clauses, evidence accounting, sharded execution, replay.

A *clause* is one executable statement of (part of) a property.  Every clause has a
``body(case, note)`` working on a JSON-able *case* (recipe); the body raises
``Violation`` when the property is broken on that case and calls
``note(nontrivial, *classes)`` to classify what it saw.  How cases are produced is
the clause's ``source``:

* ``given``  – a Hypothesis strategy (seeded from VERIF_SEED, sharded in thorough);
* ``enum``   – a finite enumeration that is covered completely (``exhaustive``);
* ``custom`` – the clause drives itself (sub-processes, file systems).

Replay files are the shrunk case plus the clause name; ``--replay`` runs the body on
the stored case without Hypothesis.
"""

from __future__ import annotations

import hashlib
import json
import os
import sys
import time
import traceback
from collections import Counter
from dataclasses import dataclass, field
from typing import Any, Callable, Iterable, Optional

VERIF_DIR = os.path.dirname(os.path.dirname(os.path.abspath(__file__)))
REPO = os.path.abspath(os.environ.get("VERIF_REPO", "/repo"))


def use_repo() -> None:
    """Put the tree under test first on sys.path and make sure it is what we import."""
    if REPO not in sys.path:
        sys.path.insert(0, REPO)
    import htmltools  # noqa

    here = os.path.dirname(os.path.abspath(htmltools.__file__))
    if os.path.dirname(here) != REPO:
        raise HarnessError(f"htmltools imported from {here}, expected under {REPO}")


class Violation(Exception):
    """The property does not hold on the current case.

    ``case`` optionally overrides the case stored in the replay file (used by chunked
    enumerations to store the single offending item instead of the whole chunk)."""

    def __init__(self, msg: str, case: Any = None) -> None:
        super().__init__(msg)
        self.case = case


class HarnessError(Exception):
    """The machinery itself is broken (never reported as a violation)."""


def check(cond: bool, msg: str, *details: Any) -> None:
    if not cond:
        if details:
            msg = msg + " | " + " | ".join(_short(d) for d in details)
        raise Violation(msg)


def _short(x: Any, n: int = 400) -> str:
    s = x if isinstance(x, str) else repr(x)
    if isinstance(x, str):
        s = repr(x)
    return s if len(s) <= n else s[:n] + "...(%d chars)" % len(s)


def canon(case: Any) -> str:
    return json.dumps(case, sort_keys=True, ensure_ascii=True, separators=(",", ":"), default=repr)


def case_hash(case: Any) -> int:
    return int.from_bytes(hashlib.sha1(canon(case).encode()).digest()[:8], "big")


def derive(seed: int, *parts: Any) -> int:
    h = hashlib.sha256(("%d|" % seed + "|".join(str(p) for p in parts)).encode()).digest()
    return int.from_bytes(h[:8], "big")


@dataclass
class Clause:
    name: str
    body: Callable[[Any, Callable[..., None]], None]
    source: str = "given"  # given | enum | custom
    strategy: Optional[Callable[[], Any]] = None  # () -> hypothesis strategy
    enum: Optional[Callable[[str], Iterable[Any]]] = None  # tier -> iterable of cases
    custom: Optional[Callable[["Ctx"], None]] = None
    quick: int = 2000
    thorough: int = 20000  # per shard
    shards_quick: int = 1
    shards_thorough: int = 16
    required: tuple = ()  # class names that must be observed at least once
    rule: str = ""  # non-trivial rule, in words
    doc: str = ""
    max_samples: int = 3
    fuzz: int = 0  # thorough tier: additional coverage-guided runs (atheris) of the same strategy + oracle


class Recorder:
    """Per-job evidence accounting."""

    def __init__(self, max_samples: int = 3) -> None:
        self.evaluations = 0
        self.nontrivial: set[int] = set()
        self.classes: Counter = Counter()
        self.samples: list[tuple[int, Any]] = []
        self.bulk_nontrivial = 0
        self.max_samples = max_samples
        self._cur_case: Any = None
        self._cur_hash: Optional[int] = None

    def begin(self, case: Any) -> None:
        self.evaluations += 1
        self._cur_case = case
        self._cur_hash = None

    def __call__(self, nontrivial: bool = True, *classes: str) -> None:
        self.note(nontrivial, *classes)

    def bulk(self, evaluations: int, nontrivial: int, sample: Any = None, **classes: int) -> None:
        """Account for a chunk of an enumeration handled inside one body call: every item of an
        enumeration is distinct by construction, so non-trivial items are simply counted."""
        self.evaluations += evaluations - 1  # begin() counted the chunk as one
        self.bulk_nontrivial += nontrivial
        for k, v in classes.items():
            if v:
                self.classes[k] += v
        if sample is not None and len(self.samples) < self.max_samples:
            self.samples.append((case_hash(sample), sample))

    def note(self, nontrivial: bool = True, *classes: str) -> None:
        for c in classes:
            if c:
                self.classes[c] += 1
        if nontrivial:
            if self._cur_hash is None:
                self._cur_hash = case_hash(self._cur_case)
            h = self._cur_hash
            if h not in self.nontrivial:
                self.nontrivial.add(h)
                # deterministic sample: keep the cases with the smallest hashes
                if len(self.samples) < self.max_samples or h < self.samples[-1][0]:
                    self.samples.append((h, self._cur_case))
                    self.samples.sort(key=lambda t: t[0])
                    del self.samples[self.max_samples :]


@dataclass
class JobResult:
    clause: str
    shard: int
    evaluations: int = 0
    nontrivial: set = field(default_factory=set)
    classes: Counter = field(default_factory=Counter)
    samples: list = field(default_factory=list)
    bulk_nontrivial: int = 0
    failure: Optional[dict] = None  # {"case":..., "message":...}
    harness_error: Optional[str] = None
    wall_s: float = 0.0
    exhaustive: bool = False
    extra: dict = field(default_factory=dict)


@dataclass
class Ctx:
    prop: str
    tier: str
    seed: int
    shard: int
    nshards: int
    rec: Recorder
    extra: dict = field(default_factory=dict)

    def note(self, nontrivial: bool = True, *classes: str) -> None:
        self.rec.note(nontrivial, *classes)


def _is_library_exception(exc: BaseException) -> bool:
    tb = exc.__traceback__
    lib = os.path.join(REPO, "htmltools") + os.sep
    while tb is not None:
        fn = os.path.abspath(tb.tb_frame.f_code.co_filename)
        if fn.startswith(lib):
            return True
        tb = tb.tb_next
    return False


def run_body(clause: Clause, case: Any, rec: Recorder) -> None:
    """Run body on one case, converting unexpected library exceptions to Violation."""
    rec.begin(case)
    try:
        clause.body(case, rec)
    except Violation:
        raise
    except HarnessError:
        raise
    except Exception as e:  # noqa
        if _is_library_exception(e):
            tb = traceback.format_exc(limit=-4)
            raise Violation(f"unexpected {type(e).__name__} from library: {e} | {tb}") from e
        raise HarnessError("harness exception: " + traceback.format_exc()) from e


def run_job(prop: str, clause: Clause, tier: str, seed: int, shard: int, nshards: int) -> JobResult:
    use_repo()
    t0 = time.time()
    rec = Recorder(clause.max_samples)
    res = JobResult(clause=clause.name, shard=shard)
    try:
        if clause.source == "given":
            _run_given(prop, clause, tier, seed, shard, rec, res)
        elif clause.source == "enum":
            _run_enum(clause, tier, shard, nshards, rec, res)
        elif clause.source == "custom":
            ctx = Ctx(prop, tier, seed, shard, nshards, rec)
            try:
                clause.custom(ctx)  # type: ignore[misc]
            except Violation as v:
                res.failure = {"case": ctx.extra.get("case"), "message": str(v)}
            res.extra = {k: v for k, v in ctx.extra.items() if k != "case"}
        else:
            raise HarnessError("unknown clause source " + clause.source)
    except HarnessError as e:
        res.harness_error = str(e)
    except Exception:  # noqa
        res.harness_error = "harness exception: " + traceback.format_exc()
    res.evaluations = rec.evaluations
    res.nontrivial = rec.nontrivial
    res.bulk_nontrivial = rec.bulk_nontrivial
    res.classes = rec.classes
    res.samples = rec.samples
    res.wall_s = time.time() - t0
    return res


def _run_enum(clause: Clause, tier: str, shard: int, nshards: int, rec: Recorder, res: JobResult) -> None:
    assert clause.enum is not None
    for i, case in enumerate(clause.enum(tier)):
        if i % nshards != shard:
            continue
        try:
            run_body(clause, case, rec)
        except Violation as v:
            res.failure = {"case": case if v.case is None else v.case, "message": str(v)}
            return
    res.exhaustive = True


def _run_given(prop: str, clause: Clause, tier: str, seed: int, shard: int, rec: Recorder, res: JobResult) -> None:
    import hypothesis
    from hypothesis import HealthCheck, Phase, given, settings

    import warnings

    warnings.filterwarnings("ignore", category=hypothesis.errors.HypothesisWarning)
    assert clause.strategy is not None
    n = clause.quick if tier == "quick" else clause.thorough
    scale = float(os.environ.get("VERIF_SCALE", "1"))
    n = max(1, int(n * scale))
    last: dict = {}

    def test(case: Any) -> None:
        try:
            run_body(clause, case, rec)
        except Violation as v:
            last["case"] = case if v.case is None else v.case
            last["message"] = str(v)
            raise

    st = clause.strategy()
    wrapped = given(st)(test)
    wrapped = hypothesis.seed(derive(seed, prop, clause.name, shard))(wrapped)
    wrapped = settings(
        max_examples=n,
        database=None,
        deadline=None,
        derandomize=False,
        report_multiple_bugs=False,
        suppress_health_check=list(HealthCheck),
        phases=[Phase.generate, Phase.shrink],
        print_blob=False,
    )(wrapped)
    try:
        wrapped()
    except Violation:
        res.failure = {"case": last.get("case"), "message": last.get("message")}
    except HarnessError:
        raise
    except hypothesis.errors.HypothesisException as e:
        # Flaky / Unsatisfiable etc.: machinery problem, not a verdict
        if last:
            res.failure = {"case": last.get("case"), "message": last.get("message")}
        else:
            raise HarnessError(f"hypothesis error: {type(e).__name__}: {e}")


# ---------------------------------------------------------------------------------
# driver
# ---------------------------------------------------------------------------------


def _job_entry(args: tuple) -> JobResult:
    prop, modname, cname, tier, seed, shard, nshards = args
    import importlib

    use_repo()
    mod = importlib.import_module(modname)
    clause = next(c for c in mod.CLAUSES if c.name == cname)
    return run_job(prop, clause, tier, seed, shard, nshards)


def load_known() -> list[dict]:
    p = os.path.join(VERIF_DIR, "known_findings.json")
    if not os.path.exists(p):
        return []
    with open(p) as f:
        return json.load(f).get("findings", [])


def write_replay(prop: str, clause: str, failure: dict, seed: int, tier: str) -> str:
    d = os.environ.get("VERIF_REPLAY_DIR") or os.path.join(VERIF_DIR, "replays")
    os.makedirs(d, exist_ok=True)
    payload = {
        "property": prop,
        "clause": clause,
        "case": failure.get("case"),
        "message": failure.get("message"),
        "seed": seed,
        "tier": tier,
    }
    h = hashlib.sha1(canon([clause, failure.get("case")]).encode()).hexdigest()[:8]
    path = os.path.join(d, f"{prop}-{clause}-{h}.json")
    with open(path, "w") as f:
        json.dump(payload, f, indent=1, ensure_ascii=True, default=repr)
    return path


def run_property(prop: str, tier: str, seed: int, only: Optional[list[str]] = None, jobs: int = 16) -> int:
    import importlib
    import multiprocessing as mp

    t0 = time.time()
    use_repo()
    modname = f"hv.checks.{prop.lower()}"
    mod = importlib.import_module(modname)
    if hasattr(mod, "selftest"):
        try:
            mod.selftest()
        except Exception:  # noqa
            print("HARNESS-ERROR selftest failed:\n" + traceback.format_exc())
            return 2
    clauses: list[Clause] = [c for c in mod.CLAUSES if not only or c.name in only]
    if not clauses:
        print("HARNESS-ERROR no clauses selected")
        return 2

    violations: list[tuple[str, str, str]] = []
    harness_errors: list[str] = []
    results: dict[str, list[JobResult]] = {c.name: [] for c in clauses}

    # 1. regression replays (committed minimal cases: seeded changes, fixed defects)
    regress_dir = os.path.join(VERIF_DIR, "regress", prop)
    n_regress = 0
    if os.path.isdir(regress_dir) and os.environ.get("VERIF_NO_REGRESS") != "1":
        byname = {c.name: c for c in mod.CLAUSES}
        for fn in sorted(os.listdir(regress_dir)):
            if not fn.endswith(".json"):
                continue
            with open(os.path.join(regress_dir, fn)) as f:
                r = json.load(f)
            c = byname.get(r["clause"])
            if c is None or (only and c.name not in only):
                continue
            n_regress += 1
            rec = Recorder()
            try:
                run_body(c, r["case"], rec)
            except Violation as v:
                path = write_replay(prop, c.name, {"case": r["case"], "message": str(v)}, seed, tier)
                violations.append((c.name, path, str(v)))
            except HarnessError as e:
                harness_errors.append(f"regress {fn}: {e}")

    # 2. generated search
    joblist = []
    for c in clauses:
        ns = c.shards_quick if tier == "quick" else c.shards_thorough
        if c.source == "custom":
            ns = 1
        for s in range(ns):
            joblist.append((prop, modname, c.name, tier, seed, s, ns))
    fuzz_procs = []
    fuzz_tmp = None
    if tier == "thorough" and os.environ.get("VERIF_NO_FUZZ") != "1":
        import subprocess
        import tempfile

        for c in clauses:
            if c.fuzz and c.source == "given":
                if fuzz_tmp is None:
                    fuzz_tmp = tempfile.mkdtemp(prefix="hv-fuzz-")
                for k, corpus_kind in enumerate(("empty",)):
                    out = os.path.join(fuzz_tmp, f"{c.name}-{k}")
                    try:
                        p = subprocess.Popen(
                            [sys.executable, "-m", "hv.fuzz", prop, c.name, str(c.fuzz), str(derive(seed, prop, c.name, "fuzz", k)), out],
                            cwd=VERIF_DIR,
                            stdout=subprocess.DEVNULL,
                            stderr=subprocess.DEVNULL,
                        )
                        fuzz_procs.append((c, out, p))
                    except OSError:
                        pass
    jobs = max(1, min(jobs, len(joblist)))
    ctx = mp.get_context("fork")
    if jobs == 1:
        outs = [_job_entry(j) for j in joblist]
    else:
        with ctx.Pool(jobs, maxtasksperchild=1) as pool:
            outs = pool.map(_job_entry, joblist, chunksize=1)
    for o in outs:
        results[o.clause].append(o)

    fuzz_info: dict = {}
    for c, out, p in fuzz_procs:
        try:
            p.wait(timeout=3600)
        except Exception:  # noqa
            p.kill()
        st_path = os.path.join(out, "status.json")
        info = {"engine": "atheris/libFuzzer via hypothesis.fuzz_one_input", "requested_runs": c.fuzz}
        if os.path.exists(st_path):
            with open(st_path) as f:
                stt = json.load(f)
            info.update({"evaluations": stt.get("evaluations", 0), "distinct_nontrivial": stt.get("nontrivial", 0), "completed": bool(stt.get("done"))})
            if stt.get("failure"):
                # a fuzzer finding counts only if the plain replay path confirms it
                rec = Recorder()
                try:
                    run_body(c, stt["failure"]["case"], rec)
                    info["unconfirmed_failure"] = stt["failure"].get("message", "")[:300]
                except Violation as v:
                    fr = JobResult(clause=c.name, shard=-1)
                    fr.failure = {"case": stt["failure"]["case"], "message": "[found by the atheris supplement] " + str(v)}
                    results[c.name].append(fr)
                except HarnessError as e:
                    info["unconfirmed_failure"] = str(e)[:300]
        else:
            info["skipped"] = "atheris unavailable or the fuzz process did not start (supplement is optional)"
        fuzz_info[c.name] = info
    if fuzz_tmp:
        import shutil

        shutil.rmtree(fuzz_tmp, ignore_errors=True)

    already = {v[0] for v in violations}
    for c in clauses:
        for o in results[c.name]:
            if o.harness_error:
                harness_errors.append(f"{c.name}[{o.shard}]: {o.harness_error}")
        fails = [o for o in results[c.name] if o.failure]
        if fails and c.name not in already:
            # report the smallest failing case of the clause (one clause = one potential root cause)
            best = min(fails, key=lambda o: len(canon(o.failure["case"])))
            path = write_replay(prop, c.name, best.failure, seed, tier)
            violations.append((c.name, path, best.failure.get("message") or ""))

    # 3. evidence
    cov_clauses = {}
    total_eval = n_regress
    all_nontriv: set = set()
    classes: Counter = Counter()
    samples: list = []
    any_exhaustive = False
    bulk_total = 0
    for c in clauses:
        outs_c = results[c.name]
        ev = sum(o.evaluations for o in outs_c)
        nt: set = set()
        cl: Counter = Counter()
        bulk = 0
        for o in outs_c:
            nt |= {(c.name, h) for h in o.nontrivial}
            cl.update(o.classes)
            bulk += o.bulk_nontrivial
        bulk_total += bulk
        exhaustive = c.source == "enum" and all(o.exhaustive for o in outs_c) and bool(outs_c)
        any_exhaustive = any_exhaustive or exhaustive
        smp = sorted((s for o in outs_c for s in o.samples), key=lambda t: t[0])[: c.max_samples]
        entry = {
            "source": c.source,
            "evaluations": ev,
            "distinct_nontrivial": len(nt) + bulk,
            "rule": c.rule,
            "classes": dict(sorted(cl.items())),
            "shards": len(outs_c),
            "wall_s": round(max((o.wall_s for o in outs_c), default=0.0), 2),
        }
        if c.source == "enum":
            entry["exhaustive"] = exhaustive
        extra = {}
        for o in outs_c:
            extra.update(o.extra)
        if extra:
            entry["extra"] = extra
        if c.name in fuzz_info:
            entry["coverage_guided_supplement"] = fuzz_info[c.name]
            ev += int(fuzz_info[c.name].get("evaluations", 0))
            entry["evaluations"] = ev
        cov_clauses[c.name] = entry
        total_eval += ev
        all_nontriv |= nt
        classes.update({f"{c.name}:{k}": v for k, v in cl.items()})
        for h, case in smp:
            samples.append({"clause": c.name, "case": case})
        for rq in c.required:
            if cl.get(rq, 0) == 0 and not any(o.failure or o.harness_error for o in outs_c):
                harness_errors.append(f"{c.name}: required class '{rq}' was never generated")

    known = [k for k in load_known() if k.get("property") == prop and k.get("status") == "known"]
    rule = getattr(mod, "RULE", "") or "; ".join(f"{c.name}: {c.rule}" for c in clauses if c.rule)
    evidence = {
        "property_id": prop,
        "tier": tier,
        "seed": seed,
        "level": "exploration",
        "coverage": {
            "evaluations": total_eval,
            "distinct_nontrivial": len(all_nontriv) + bulk_total,
            "rule": rule,
            "samples": _trim_samples(samples),
            "clauses": cov_clauses,
            "regression_cases_replayed": n_regress,
            "exhaustive": False,
            "exhaustive_subdomains": [c.name for c in clauses if cov_clauses[c.name].get("exhaustive")],
            "known_findings": [k.get("key") for k in known],
        },
        "assumptions": list(getattr(mod, "ASSUMPTIONS", [])),
        "wall_s": round(time.time() - t0, 2),
        "violations": len(violations),
    }
    if harness_errors:
        evidence["coverage"]["harness_errors"] = harness_errors[:10]
    evdir = os.environ.get("VERIF_EVIDENCE_DIR") or os.path.join(VERIF_DIR, "evidence")
    os.makedirs(evdir, exist_ok=True)
    with open(os.path.join(evdir, f"{prop}.json"), "w") as f:
        json.dump(evidence, f, indent=1, ensure_ascii=True, default=repr)
        f.write("\n")

    for k in known:
        print(f"KNOWN-FINDING: property={prop} {k.get('what')}")
    for cname, path, msg in violations:
        print(f"VIOLATION property={prop} replay={path}")
        print(f"  clause={cname}: {msg[:1500]}")
    print(
        f"{prop} tier={tier} seed={seed} clauses={len(clauses)} evaluations={total_eval} "
        f"distinct_nontrivial={len(all_nontriv) + bulk_total} violations={len(violations)} wall={time.time()-t0:.1f}s"
    )
    if violations:
        return 1
    if harness_errors:
        for h in harness_errors:
            print("HARNESS-ERROR " + h[:3000])
        return 2
    return 0


def _trim_samples(samples: list, budget: int = 6000) -> list:
    out = []
    used = 0
    for s in samples:
        c = canon(s)
        if len(c) > 1500:
            continue
        if used + len(c) > budget and out:
            break
        out.append(s)
        used += len(c)
    if not out and samples:
        out = [{"clause": samples[0]["clause"], "case_truncated": canon(samples[0])[:1500]}]
    return out


def run_replay(prop: str, path: str) -> int:
    import importlib

    use_repo()
    mod = importlib.import_module(f"hv.checks.{prop.lower()}")
    with open(path) as f:
        r = json.load(f)
    c = next((c for c in mod.CLAUSES if c.name == r["clause"]), None)
    if c is None:
        print(f"HARNESS-ERROR unknown clause {r['clause']}")
        return 2
    rec = Recorder()
    try:
        run_body(c, r["case"], rec)
    except Violation as v:
        print(f"VIOLATION property={prop} replay={path}")
        print(f"  clause={c.name}: {str(v)[:3000]}")
        return 1
    except HarnessError as e:
        print("HARNESS-ERROR " + str(e))
        return 2
    print(f"replay passes: property={prop} clause={c.name}")
    return 0
