"""Property-based verification machinery for posit-dev/py-htmltools (see /verif/DESIGN.md)."""
