"""Shared *failed-operation history*: public API calls that raise (the documented error for a child that was never
expanded, user code failing inside _repr_html_ / tagify(), unsupported children and attribute values, a declaration
without semicolon, an invalid dependency definition).  Checks run it before the operation under test when their case
asks for it: whatever failed earlier in the process, the next operation must behave as in a fresh process."""

from __future__ import annotations


class UserCodeError(Exception):
    pass


class _Boom:
    def _repr_html_(self):
        raise UserCodeError("user code failed while rendering")


class _BoomTfy:
    def tagify(self):
        raise UserCodeError("user code failed in tagify()")


class _NeverExpanded:
    def tagify(self):
        return "never asked"


def failed_operations(indent: int = 0, eol: str = "\n", key: object = None) -> int:
    """key: anything derived from the case; it decides which failure comes *last* (a later failure may happen to
    repair what an earlier one left behind), so over many cases every kind of failure is the most recent one"""
    import zlib

    import htmltools as h

    n = 0
    todo = []

    def attempt(f):
        todo.append(f)

    for nm, ws in (("script", True), ("style", True), ("div", True), ("span", False), ("pre", False)):
        attempt(lambda nm=nm, ws=ws: h.Tag(nm, "a<b", _NeverExpanded(), _add_ws=ws).get_html_string(indent, eol))
        attempt(lambda nm=nm, ws=ws: h.Tag(nm, "x", h.Tag("b", "y", _Boom(), _add_ws=False), "z", _add_ws=ws).get_html_string(indent, eol))
        attempt(lambda nm=nm, ws=ws: h.TagList("lead", h.Tag(nm, h.Tag("p", "stale child", _NeverExpanded()), _add_ws=ws)).get_html_string(indent, eol))
        attempt(lambda nm=nm, ws=ws: h.Tag(nm, "c&d", _BoomTfy(), _add_ws=ws).render())
        attempt(lambda nm=nm, ws=ws: str(h.Tag(nm, h.HTMLDependency("stale-dep", "1.0"), _BoomTfy(), _add_ws=ws)))
        attempt(lambda nm=nm, ws=ws: h.HTMLDocument(h.Tag(nm, "stale", _BoomTfy(), _add_ws=ws)).render())
    attempt(lambda: h.Tag("div", "stale child", object()))
    attempt(lambda: h.Tag("div", "stale child", title=object()))
    attempt(lambda: h.Tag("div", {"class": "stale"}, {7: "x"}))
    attempt(lambda: h.div("stale child", {1, 2}))
    attempt(lambda: h.TagList("stale child", [b"x"]))
    attempt(lambda: h.TagList("keep").extend(["stale", object()]))
    attempt(lambda: h.consolidate_attrs("stale child", title=[1]))
    attempt(lambda: h.consolidate_attrs({"class": "stale"}, object(), id=object()))
    attempt(lambda: h.Tag("p", style="a:b;").add_style("color:red"))
    attempt(lambda: h.Tag("p").attrs.update({"class": "stale"}, [("a", "b")]))
    attempt(lambda: h.HTMLDependency("bad", "1.0", script={"no-src": "x"}))
    attempt(lambda: h.HTMLDependency("bad", "1.0", source=3))
    attempt(lambda: h.css(collapse_=3, color="red"))
    attempt(lambda: h.Tag("div", _add_ws="yes"))
    k = zlib.crc32(repr(key).encode("utf-8", "surrogatepass")) % len(todo)
    for f in todo[k:] + todo[:k]:
        try:
            f()
        except Exception:  # noqa - any failure is the point
            n += 1
    return n
