"""Coverage-guided supplement (thorough tier): atheris/libFuzzer drives the *same* Hypothesis
strategy and oracle of a clause through ``test.hypothesis.fuzz_one_input`` with coverage
feedback from an instrumented htmltools.

usage: python -m hv.fuzz <PROP> <clause> <runs> <seed> <outdir>

Writes <outdir>/status.json {"evaluations":n,"nontrivial":k,"failure":{case,message}|null,"done":bool}
periodically (libFuzzer does not run atexit handlers).  Fail-soft: if atheris is
missing the caller records the sub-run as skipped; never a violation by itself - a
failing case is re-checked by the caller through the plain replay path.
"""

from __future__ import annotations

import importlib
import json
import os
import sys


def main() -> int:
    prop, cname, runs, seed, outdir = sys.argv[1], sys.argv[2], int(sys.argv[3]), int(sys.argv[4]), sys.argv[5]
    here = os.path.dirname(os.path.dirname(os.path.abspath(__file__)))
    sys.path.insert(0, os.path.join(here, ".deps"))
    sys.setrecursionlimit(10000)
    import atheris  # noqa

    from hv import core

    repo = core.REPO
    if repo not in sys.path:
        sys.path.insert(0, repo)
    with atheris.instrument_imports(include=["htmltools"]):
        import htmltools  # noqa

    core.use_repo()
    mod = importlib.import_module(f"hv.checks.{prop.lower()}")
    clause = next(c for c in mod.CLAUSES if c.name == cname)
    rec = core.Recorder(2)
    status = {"evaluations": 0, "nontrivial": 0, "failure": None, "done": False}
    os.makedirs(outdir, exist_ok=True)
    spath = os.path.join(outdir, "status.json")

    def flush():
        status["evaluations"] = rec.evaluations
        status["nontrivial"] = len(rec.nontrivial)
        status["classes"] = dict(rec.classes)
        tmp = spath + ".tmp"
        with open(tmp, "w") as f:
            json.dump(status, f, default=repr)
        os.replace(tmp, spath)

    import hypothesis
    from hypothesis import HealthCheck, given, settings

    @settings(database=None, deadline=None, suppress_health_check=list(HealthCheck))
    @given(clause.strategy())
    def test(case):
        try:
            core.run_body(clause, case, rec)
        except core.Violation as v:
            status["failure"] = {"case": case if v.case is None else v.case, "message": str(v)}
            flush()
            raise
        if rec.evaluations % 500 == 0:
            flush()
        if rec.evaluations >= runs:
            status["done"] = True
            flush()
            os._exit(0)

    flush()
    corpus = os.path.join(outdir, "corpus")
    os.makedirs(corpus, exist_ok=True)
    argv = [sys.argv[0], f"-runs={runs * 3}", f"-seed={seed % 2147483647 or 1}", "-max_len=4096", "-print_final_stats=0", "-verbosity=0", f"-artifact_prefix={outdir}/", corpus]
    atheris.Setup(argv, test.hypothesis.fuzz_one_input)
    atheris.Fuzz()
    status["done"] = True
    flush()
    return 0


if __name__ == "__main__":
    sys.exit(main())
