"""CLI: python -m hv.run C07 [--tier quick|thorough] [--replay FILE] [--clause NAME ...]

Exit 0: property held on everything explored.  Exit 1 + ``VIOLATION property=<id>
replay=<path>``: violated.  Exit 2: harness error (never a verdict).
"""

from __future__ import annotations

import argparse
import os
import sys


def main() -> int:
    ap = argparse.ArgumentParser()
    ap.add_argument("prop")
    ap.add_argument("--tier", default=os.environ.get("VERIF_TIER") or "quick", choices=["quick", "thorough"])
    ap.add_argument("--replay")
    ap.add_argument("--clause", action="append")
    ap.add_argument("--jobs", type=int, default=int(os.environ.get("VERIF_JOBS", "16")))
    a = ap.parse_args()
    try:
        seed = int(os.environ.get("VERIF_SEED", "1") or "1")
    except ValueError:
        seed = 1
    if os.environ.get("PYTHONHASHSEED") is None:
        # pin the hash seed of the harness processes (C18 varies it for its children itself)
        os.environ["PYTHONHASHSEED"] = "0"
        os.execv(sys.executable, [sys.executable, "-m", "hv.run"] + sys.argv[1:])
    sys.setrecursionlimit(10000)
    from hv import core

    prop = a.prop.upper()
    try:
        if a.replay:
            return core.run_replay(prop, a.replay)
        return core.run_property(prop, a.tier, seed, a.clause, a.jobs)
    except core.HarnessError as e:
        print("HARNESS-ERROR " + str(e))
        return 2


if __name__ == "__main__":
    sys.exit(main())
