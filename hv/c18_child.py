"""Child interpreter for C18: renders a battery of recipes in a given order and prints digests.

usage: python -m hv.c18_child <battery.json> <order_seed>     (PYTHONHASHSEED is set by the parent)
"""

from __future__ import annotations

import hashlib
import json
import sys


def digest(s: str) -> str:
    return hashlib.sha256(s.encode("utf-8", "surrogatepass")).hexdigest()[:24]


_ICON = []  # a module-level constant of the "application" (created once per process)


class _Boom:
    def _repr_html_(self):
        raise ValueError("user code failed while rendering")


def construct(case):
    import htmltools as h
    from hv.build import build

    objs = [build(r) for r in case["roots"]]
    # API calls applied after construction are part of "the same construction"
    for op in case.get("ops", []):
        tags = [o for o in objs if isinstance(o, h.Tag)]
        if not tags:
            break
        t = tags[op[1] % len(tags)]
        if op[0] == "add_class":
            t.add_class(op[2], prepend=bool(op[3]))
        elif op[0] == "remove_class":
            t.remove_class(op[2])
        elif op[0] == "add_style":
            t.add_style(op[2], prepend=bool(op[3]))
        elif op[0] == "update":
            t.attrs.update({k: v for k, v in op[2]})
        elif op[0] == "append":
            t.append(op[2], [op[2], None, (op[2],)])
    return objs


def render_case(case, flip: bool = False) -> dict:
    import htmltools as h
    from hv.build import Tfy, attr_value, build

    objs = construct(case)
    extra = {}
    ff = case.get("fail_first")
    if ff:
        # history: an earlier rendering of these very objects raised half way (a child that was never expanded - the
        # documented error - or user code failing in _repr_html_); the cause is then removed
        t = next((o for o in reversed(objs) if isinstance(o, h.Tag)), None)
        while t is not None and any(isinstance(c, h.Tag) for c in t.children):
            t = [c for c in t.children if isinstance(c, h.Tag)][-1]
        if t is not None:
            t.append(Tfy({"k": "text", "s": "never expanded"}) if ff == "untagified" else _Boom())
            try:
                h.TagList(*objs).get_html_string()
                failed = False
            except Exception:  # noqa
                failed = True
            t.children.pop()
            try:
                ok = h.TagList(*objs).get_html_string() == h.TagList(*construct(case)).get_html_string()
            except Exception:  # noqa
                ok = False
            extra["after_failed_ok"] = bool(failed and ok)
    # a label built with += from a shared constant: the constant must stay what it is
    if not _ICON:
        _ICON.append(h.HTML("<i class='ic'></i>"))
    lab = _ICON[0]
    lab += case.get("label", "x<y")
    lab += h.HTML("<b>!</b>")
    extra["iadd_label"] = digest(str(h.Tag("span", lab, _ICON[0], _add_ws=False)))
    tl = h.TagList(*objs)
    r = tl.render()
    out = {
        "html": digest(r["html"]),
        "deps": [[d.name, str(d.version)] for d in r["dependencies"]],
        "as_dict": digest(json.dumps([d.as_dict(lib_prefix="lib") for d in r["dependencies"]], default=str)),
        "str": digest(str(tl)),
    }
    kw = {k: attr_value(v) for k, v in case.get("kw", [])}
    docobj = h.HTMLDocument(*[build(x) for x in case["roots"]], **kw)
    d = docobj.render()
    out["doc"] = digest(d["html"])
    out["doc_again"] = digest(docobj.render()["html"])  # the very same objects rendered a second time
    if case.get("html_root"):
        page = h.Tag("html", h.Tag("head"), h.Tag("body", *[build(x) for x in case["roots"]]))
        page.add_class("no-js")
        pdoc = h.HTMLDocument(page, **kw)  # one document object, rendered twice
        p1 = pdoc.render()["html"]
        p2 = pdoc.render()["html"]
        p3 = h.HTMLDocument(page, **kw).render()["html"]
        if p3 != p1:
            p2 = p3
        out["page"] = digest(p1)
        out["page_again"] = digest(p2)
    out["doc_deps"] = [[x.name, str(x.version)] for x in d["dependencies"]]
    h.html_dependency_render_mode = "json"
    try:
        s = str(tl)
    finally:
        h.html_dependency_render_mode = "invisible"
    out["json_mode"] = digest(s)
    td = h.HTMLTextDocument("<head>@@</head>" + s + s, deps_replace_pattern="@@").render()
    out["extracted"] = [[x.name, str(x.version)] for x in td["dependencies"]]
    out["text_doc"] = digest(td["html"])
    # a text document that is also given dependencies explicitly: the serialised ones follow in order of appearance
    given = [x for x in r["dependencies"][:1]]
    tdg = h.HTMLTextDocument("<head>@@</head>" + s, deps=list(given) if given else [h.HTMLDependency("given", "1.0")], deps_replace_pattern="@@").render()
    out["text_doc_deps_given"] = [[x.name, str(x.version)] for x in tdg["dependencies"]]
    out["text_doc_deps_given_html"] = digest(tdg["html"])
    # the same short string once as text and once as an attribute value, in an order that differs from child to child
    probe = 'Tom & "Jerry" <' + case.get("label", "") + ">\n'"
    if flip:
        e_text, e_attr = h.Tag("p", probe).get_html_string(), h.Tag("p", title=probe).get_html_string()
    else:
        e_attr, e_text = h.Tag("p", title=probe).get_html_string(), h.Tag("p", probe).get_html_string()
    out["escape_both_roles"] = digest(e_text + "|" + e_attr + "|" + h.html_escape(probe) + "|" + h.html_escape(probe, attr=True))
    hc = []
    for p in case.get("payloads", []):
        hc.append(h.head_content(*[build(x) for x in p]).name)
    out["headc_names"] = hc
    # the same keywords with numerically equal values of the other type (1 <-> 1.0); which of the two calls comes
    # first differs from child to child, the answers must not
    kw_css = {k: v for k, v in case.get("css", [])}
    alt_css = {k: (float(v) if type(v) is int else (int(v) if type(v) is float and v == int(v) else v)) for k, v in kw_css.items()}
    if flip:
        out["css_alt"] = str(h.css(**alt_css))
        out["css"] = str(h.css(**kw_css))
    else:
        out["css"] = str(h.css(**kw_css))
        out["css_alt"] = str(h.css(**alt_css))
    # one text-document object rendered with several argument combinations in a row must answer like fresh objects do
    combos = [("lib", True), ("lib", False), (None, True), ("lib", True)]
    text = "<head>@@</head>" + s
    used = h.HTMLTextDocument(text, deps_replace_pattern="@@")
    hist = []
    for lp, iv in combos:
        a_ = used.render(lib_prefix=lp, include_version=iv)["html"]
        b_ = h.HTMLTextDocument(text, deps_replace_pattern="@@").render(lib_prefix=lp, include_version=iv)["html"]
        hist.append(a_ == b_)
    used_doc = h.HTMLDocument(*[build(x) for x in case["roots"]], **kw)
    for lp, iv in combos:
        a_ = used_doc.render(lib_prefix=lp, include_version=iv)["html"]
        b_ = h.HTMLDocument(*[build(x) for x in case["roots"]], **kw).render(lib_prefix=lp, include_version=iv)["html"]
        hist.append(a_ == b_)
    out["arg_history_ok"] = all(hist)
    out.update(extra)
    return out


def main() -> int:
    from hv import core

    core.use_repo()
    with open(sys.argv[1]) as f:
        battery = json.load(f)
    order_seed = sys.argv[2]
    n = len(battery)
    order = sorted(range(n), key=lambda i: hashlib.sha256(f"{order_seed}:{i}".encode()).hexdigest())
    # every third case is rendered a second time later on (history independence inside one process)
    repeats = [i for k, i in enumerate(order) if k % 3 == 0]
    results = {}
    mismatches = []
    flips = {i: int(hashlib.sha256(f"flip:{order_seed}:{i}".encode()).hexdigest(), 16) % 2 == 1 for i in range(n)}
    for i in order + repeats:
        res = render_case(battery[i], flips[i])
        if str(i) in results and results[str(i)] != res:
            mismatches.append(i)
        results[str(i)] = res
        if mismatches or res.get("arg_history_ok") is False or res.get("after_failed_ok") is False or res.get("doc") != res.get("doc_again") or res.get("page") != res.get("page_again"):
            break  # an inconsistency inside this process: report at once (a broken library may also get slower and slower)
    json.dump({"results": results, "mismatches": mismatches, "hashseed": __import__("os").environ.get("PYTHONHASHSEED")}, sys.stdout)
    return 0


if __name__ == "__main__":
    sys.exit(main())
