"""Shrink-probe: explores the *simple* neighbourhood of every generated shape class.

For each Hypothesis clause and each class label the clause reports, a probe test runs the
real oracle body on the case (which must hold on the unchanged tree) and then *pretends*
to fail whenever the case shows that class.  Hypothesis's shrinker therefore walks through
hundreds of ever simpler cases that still show the class - exactly the cases a real
failure would be shrunk to - with the real oracle evaluated on each of them.  A Violation
raised by the body during a probe is either a latent false alarm of the oracle on a
minimal case or a real defect; both need attention before the check can be trusted.

usage: python -m hv.probe <PROP> [--clause NAME] [--examples N]      (development tool; exit 1 if anything was found)
"""

from __future__ import annotations

import argparse
import importlib
import json
import os
import sys


class _Probe(Exception):
    pass


def features(case) -> set:
    """structural features of a recipe: top-level scalar settings, node kinds, operation names"""
    out = set()
    if isinstance(case, dict):
        for k, v in case.items():
            if isinstance(v, bool) or v is None:
                out.add(f"top:{k}={v!r}")
            elif isinstance(v, int):
                out.add(f"top:{k}>0" if v > 0 else f"top:{k}<=0")
            elif isinstance(v, str) and len(v) <= 8:
                out.add(f"top:{k}={v!r}")
            elif isinstance(v, list):
                out.add(f"top:len({k})>=1" if v else f"top:len({k})=0")
                if len(v) == 1:
                    out.add(f"top:len({k})=1")

    def walk(x, depth):
        if isinstance(x, dict):
            if "k" in x and isinstance(x["k"], str):
                f = "node:" + x["k"]
                out.add(f)
                if x.get("blank"):
                    out.add(f + ":blank")
                if x["k"] == "tag":
                    out.add(f"node:tag:ws={x.get('ws')!r}")
                    if not x.get("kids"):
                        out.add("node:tag:childless")
                if x["k"] in ("text", "html", "str") and x.get("s") == "":
                    out.add(f + ":empty")
            if "t" in x and isinstance(x["t"], str):
                out.add("t:" + x["t"])
            for v in x.values():
                walk(v, depth + 1)
        elif isinstance(x, list):
            if x and isinstance(x[0], str) and len(x) <= 6 and depth >= 2 and x[0].isidentifier():
                out.add("op:" + x[0])
            for v in x:
                walk(v, depth + 1)

    walk(case, 0)
    return out


def main() -> int:
    ap = argparse.ArgumentParser()
    ap.add_argument("prop")
    ap.add_argument("--clause", action="append")
    ap.add_argument("--examples", type=int, default=200)
    ap.add_argument("--pairs", type=int, default=120)
    a = ap.parse_args()
    sys.setrecursionlimit(10000)
    from hv import core

    core.use_repo()
    import hypothesis
    from hypothesis import HealthCheck, Phase, given, settings

    import warnings

    warnings.filterwarnings("ignore", category=hypothesis.errors.HypothesisWarning)
    a_max_pairs = a.pairs
    prop = a.prop.upper()
    mod = importlib.import_module(f"hv.checks.{prop.lower()}")
    seed = int(os.environ.get("VERIF_SEED", "1"))
    found = 0
    evals = 0
    for clause in mod.CLAUSES:
        if clause.source != "given" or (a.clause and clause.name not in a.clause):
            continue
        # pass 1: discover class labels
        rec = core.Recorder()
        feats: dict = {}

        @hypothesis.seed(core.derive(seed, prop, clause.name, "probe0"))
        @settings(max_examples=a.examples, database=None, deadline=None, suppress_health_check=list(HealthCheck), phases=[Phase.generate])
        @given(clause.strategy())
        def discover(case):
            for f in features(case):
                feats[f] = feats.get(f, 0) + 1
            core.run_body(clause, case, rec)

        try:
            discover()
        except core.Violation as v:
            print(f"PROBE-FINDING {prop}/{clause.name} (plain generation): {str(v)[:400]}")
            found += 1
            continue
        tops = sorted(f for f in feats if f.startswith("top:"))
        inner = sorted(f for f in feats if not f.startswith("top:"))
        pairs = [f"{a} && {b}" for a in tops for b in inner][: a_max_pairs]
        labels = sorted(rec.classes) + ["<nontrivial>", "<any>"] + ["feat:" + f for f in tops + inner] + ["feat:" + p for p in pairs]
        evals += rec.evaluations
        for label in labels:
            rec2 = core.Recorder()
            last = {}

            def probe_body(case):
                seen = []

                class NRec(core.Recorder):
                    def note(self, nontrivial=True, *classes):
                        seen.append((nontrivial, classes))

                    def bulk(self, *a, **k):
                        pass

                rec2.evaluations += 1
                try:
                    core.run_body(clause, case, NRec())
                except (core.Violation, core.HarnessError) as v:
                    last["case"] = case
                    last["msg"] = str(v)
                    raise core.Violation(str(v))
                if label.startswith("feat:"):
                    fs = features(case)
                    hit = all(x in fs for x in label[5:].split(" && "))
                else:
                    hit = label == "<any>" or any((label == "<nontrivial>" and nt) or label in cl for nt, cl in seen)
                if hit:
                    raise _Probe()

            @hypothesis.seed(core.derive(seed, prop, clause.name, "probe", label))
            @settings(max_examples=a.examples, database=None, deadline=None, suppress_health_check=list(HealthCheck), phases=[Phase.generate, Phase.shrink], report_multiple_bugs=False)
            @given(clause.strategy())
            def probe(case):
                probe_body(case)

            try:
                probe()
            except _Probe:
                pass
            except core.Violation:
                found += 1
                print(f"PROBE-FINDING {prop}/{clause.name} while shrinking towards class {label!r}: {last.get('msg', '')[:500]}")
                print("  case: " + json.dumps(last.get("case"), default=repr)[:1500])
            except hypothesis.errors.HypothesisException as e:
                print(f"probe {prop}/{clause.name}/{label}: {type(e).__name__}")
            evals += rec2.evaluations
    print(f"probe {prop}: {evals} oracle evaluations on shrink paths, findings={found}")
    return 1 if found else 0


if __name__ == "__main__":
    sys.exit(main())
