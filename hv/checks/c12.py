"""C12 - dependency URLs and copied files agree (file-system oracle, fault injection)."""

from __future__ import annotations

import os
import shutil
import sys
import tempfile
import urllib.parse

from hypothesis import strategies as st

from hv import gen
from hv.core import Clause, check
from hv.oracle import deps as D
from hv.oracle import tokenizer as T

ASSUMPTIONS = [
    "Linux, case-sensitive file system, UTF-8 file-system encoding; every case runs in its own temporary directory which is removed afterwards",
    "file-name components exclude '/', NUL, '.' and '..'; dependency names are URL-safe and never '.'/'..' (the library does not encode names and the property does not ask it to)",
    "libdir values are relative paths without URL metacharacters other than a space",
    "a local URL is resolved as a browser would for a file: URL path only, percent-decoded, joined to the directory of the written file",
]

COMP_HOT = ["e\u0301", "\u212b", "A\u030a", "\u2126", "\ufb01", " ", "%", "#", "?", "&", "'", '"', "\\", "\xe9", "中", "a", "b", "1", ".", "-", "+", "=", "%20", "%2F", ";", ":", "@", "~", "\U0001F600", "\n", "\t", "<", ">"]


def component():
    raw = st.one_of(
        st.lists(st.sampled_from(COMP_HOT), min_size=1, max_size=5).map("".join),
        st.text(alphabet=gen.scalar_chars, min_size=1, max_size=6),
        st.sampled_from(["lib.js", "style.css", "a b.js", "50%.css", "q?x=1.js", "frag#1.js", "..a", "a..", " lead", "trail "]),
    )
    return raw.map(lambda s: s.replace("/", "_").replace("\x00", "_")).filter(lambda s: s not in (".", "..") and 0 < len(s.encode("utf-8")) <= 80)


def relpath():
    return st.lists(component(), min_size=1, max_size=3)


def case_strategy():
    files = st.lists(st.tuples(relpath(), st.binary(max_size=12).map(lambda b: b.hex())).map(list), min_size=1, max_size=6)
    name = st.builds(lambda a, b: a + b, st.sampled_from("abcXYZ019"), st.text(alphabet="abcXYZ019_.-", max_size=6))
    version = st.lists(st.integers(0, 12), min_size=1, max_size=3).map(lambda xs: ".".join(map(str, xs)))
    idx = st.lists(st.integers(0, 5), max_size=4)
    return st.fixed_dictionaries(
        {
            "files": files,
            "scripts": idx,
            "sheets": idx,
            "all_files": st.booleans(),
            "source": st.sampled_from(["dir", "dir", "pkg", "pkg", "url", "url/", "none", "libtest", "reldir"]),
            "name": name,
            "version": version,
            "libdir": st.sampled_from([None, "lib", "lib", "x/y z", "a/b/c", ""]),
            "iv": st.booleans(),
            "nest": st.integers(0, 2),
            "pre": st.sampled_from(["absent", "empty", "stale", "stale"]),
            "caller": st.sampled_from(["doc", "tag", "list", "html", "html-doc"]),
            "missing": st.lists(st.integers(0, 5), max_size=2),
            "fault": st.booleans(),
            "fault_later": st.booleans(),
            "extra_url_dep": st.booleans(),
        }
    )


# ---------------------------------------------------------------- helpers


def dedupe_files(files):
    """drop entries whose path equals, or is a directory prefix of, an earlier entry (a name cannot be both file and directory)"""
    out, seen_files, seen_dirs = [], set(), set()
    for comps, hx in files:
        t = tuple(comps)
        prefixes = {t[:i] for i in range(1, len(t))}
        if t in seen_files or t in seen_dirs or prefixes & seen_files:
            continue
        seen_files.add(t)
        seen_dirs |= prefixes
        out.append((comps, bytes.fromhex(hx)))
    return out


def snapshot_dir(root):
    """None if absent, else sorted list of (relative path, kind, bytes)"""
    if not os.path.lexists(root):
        return None
    out = []
    for dp, dn, fn in os.walk(root):
        for d in dn:
            out.append((os.path.relpath(os.path.join(dp, d), root), "d", b""))
        for f in fn:
            p = os.path.join(dp, f)
            with open(p, "rb") as fh:
                out.append((os.path.relpath(p, root), "f", fh.read()))
    return sorted(out)


_PKG_COUNTER = [0]


def body(case, note):
    tmp = os.path.realpath(tempfile.mkdtemp(prefix="hv-c12-"))
    added_path = None
    pkgname = None
    cwd0 = os.getcwd()
    try:
        added_path, pkgname = _run(case, note, tmp)
    finally:
        os.chdir(cwd0)
        if added_path and added_path in sys.path:
            sys.path.remove(added_path)
        if pkgname:
            sys.modules.pop(pkgname, None)
        shutil.rmtree(tmp, ignore_errors=True)


def _run(case, note, tmp):
    import htmltools as h

    files = dedupe_files(case["files"])
    src_kind = case["source"]
    added_path = pkgname = None
    # ---- source tree
    srcroot = None
    if src_kind == "dir":
        srcroot = os.path.join(tmp, "src dir")
        source = {"subdir": srcroot}
    elif src_kind == "reldir":
        # a directory given relative to the current working directory (a project's own assets)
        os.makedirs(os.path.join(tmp, "project one"))
        os.chdir(os.path.join(tmp, "project one"))
        srcroot = os.path.join(tmp, "project one", "assets", "w dir")
        source = {"subdir": os.path.join("assets", "w dir")}
    elif src_kind == "pkg":
        _PKG_COUNTER[0] += 1
        pkgname = "hv_c12_pkg_%d_%d" % (os.getpid(), _PKG_COUNTER[0])
        pkgdir = os.path.join(tmp, "site", pkgname)
        os.makedirs(pkgdir)
        with open(os.path.join(pkgdir, "__init__.py"), "w") as f:
            f.write("")
        added_path = os.path.join(tmp, "site")
        sys.path.insert(0, added_path)
        srcroot = os.path.join(pkgdir, "www", "assets")
        source = {"package": pkgname, "subdir": "www/assets"}
    elif src_kind == "libtest":
        srcroot = os.path.join(os.path.dirname(h.__file__), "libtest", "testdep")
        source = {"package": "htmltools", "subdir": "libtest/testdep"}
        files = [(["testdep.js"], None), (["testdep.css"], None)]
    elif src_kind in ("url", "url/"):
        source = {"href": "https://cdn.example/lib" + ("/" if src_kind == "url/" else "")}
    else:
        source = None
    if srcroot and src_kind != "libtest":
        os.makedirs(srcroot)
        for comps, data in files:
            p = os.path.join(srcroot, *comps)
            os.makedirs(os.path.dirname(p), exist_ok=True)
            with open(p, "wb") as f:
                f.write(data)
    rels = ["/".join(c) for c, _ in files]
    n = len(rels)
    scripts = [rels[i % n] for i in case["scripts"]]
    sheets = [rels[i % n] for i in case["sheets"]]
    local = srcroot is not None
    all_files = case["all_files"] and local
    dep_recipe = {"name": case["name"], "version": case["version"], "source": source}
    dep = h.HTMLDependency(
        case["name"],
        case["version"],
        source=source,
        script=[{"src": s} for s in scripts],
        stylesheet=[{"href": s} for s in sheets],
        all_files=all_files,
    )
    libdir, iv = case["libdir"], case["iv"]

    # ---- URL law
    dd = dep.as_dict(lib_prefix=libdir, include_version=iv)
    got_urls = [s["src"] for s in dd["script"]] + [s["href"] for s in dd["stylesheet"]]
    exp_urls = [D.url(dep_recipe, s, libdir, iv) for s in scripts + sheets]
    check(got_urls == exp_urls, "as_dict() URLs are not prefix/name[-version]/percent-encoded path (or href/path)", exp_urls, got_urls)
    spm = dep.source_path_map(lib_prefix=libdir, include_version=iv)
    if local:
        check(os.path.realpath(spm["source"]) == os.path.realpath(srcroot), "source_path_map()['source'] is not the source directory", srcroot, spm["source"])
        check(spm["href"] == D.href_base(dep_recipe, libdir, iv), "source_path_map()['href'] wrong", D.href_base(dep_recipe, libdir, iv), spm["href"])
    else:
        check(spm["source"] == "", "non-local dependency reports a source directory")

    # ---- destination
    outdir = os.path.join(tmp, "out", *["n%d" % i for i in range(case["nest"])])
    os.makedirs(outdir)
    htmlfile = os.path.join(outdir, "index page.html")
    destdir = os.path.join(outdir, libdir) if libdir else outdir
    target = os.path.join(destdir, case["name"] + ("-" + case["version"] if iv else ""))
    if case["pre"] != "absent":
        os.makedirs(target, exist_ok=True)
        if case["pre"] == "stale":
            with open(os.path.join(target, "stale.txt"), "w") as f:
                f.write("old")
            os.makedirs(os.path.join(target, "old dir", "deeper"))
            with open(os.path.join(target, "old dir", "deeper", "x.js"), "w") as f:
                f.write("old")
            if rels and "/" not in rels[0] and src_kind != "libtest":
                with open(os.path.join(target, files[0][0][0]), "w") as f:
                    f.write("STALE VERSION OF A REAL FILE")
    bystander = os.path.join(destdir, "bystander-9.9")
    os.makedirs(bystander, exist_ok=True)
    with open(os.path.join(bystander, "keep.txt"), "w") as f:
        f.write("keep")
    # directories of *other* dependencies whose names merely start with / resemble this one's
    others = [os.path.join(destdir, case["name"] + sfx) for sfx in ("-extras-1.2.0", "-extras", "x-1.0", ".bak", "-ui-" + case["version"])]
    others = [o for o in others if os.path.realpath(o) != os.path.realpath(target)]
    for o in others:
        os.makedirs(o, exist_ok=True)
        with open(os.path.join(o, "keep.txt"), "w") as f:
            f.write("keep")

    # ---- fault law
    listed = list(dict.fromkeys(scripts + sheets))
    missing = []
    if case["fault"] and local and src_kind != "libtest" and not all_files and listed:
        missing = sorted({listed[i % len(listed)] for i in case["missing"]} or {listed[0]})
        for m in missing:
            os.remove(os.path.join(srcroot, *m.split("/")))
        before = snapshot_dir(target)
        try:
            dep.copy_to(destdir, include_version=iv)
            raised = False
        except Exception:  # noqa
            raised = True
        check(raised, "copy_to() did not raise although an explicitly listed file is missing", missing)
        check(snapshot_dir(target) == before, "copy_to() touched the target directory before failing on a missing listed file", before, snapshot_dir(target))
        try:
            _save(h, dep, case, htmlfile, libdir, iv)
            raised = False
        except Exception:  # noqa
            raised = True
        check(raised, "save_html() did not raise although an explicitly listed file is missing")
        check(snapshot_dir(target) == before, "save_html() touched the failing dependency's target directory")
        check(snapshot_dir(bystander) == [("keep.txt", "f", b"keep")], "an unrelated directory was modified")
        note(True, "fault", "fault-pre:" + case["pre"], "src:" + src_kind)
        return added_path, pkgname

    # ---- file law
    before_all = snapshot_dir(destdir) if not local else None
    ret = _save(h, dep, case, htmlfile, libdir, iv)
    check(ret == htmlfile, "save_html() does not return the path it wrote", htmlfile, ret)
    check(os.path.isfile(htmlfile), "save_html() did not write the file")
    with open(htmlfile, encoding="utf-8") as f:
        text = f.read()
    urls = []
    for t in T.tokenize(text):
        if t.kind == "open" and t.name == "script":
            urls += [v for k, v in t.attrs if k == "src"]
        if t.kind == "open" and t.name == "link":
            urls += [v for k, v in t.attrs if k == "href"]
    mine = [u for u in urls if not u.startswith("https://other.example/")]
    file_order = [D.url(dep_recipe, s, libdir, iv) for s in sheets + scripts]  # <link> elements precede <script> elements
    check(mine == file_order, "URLs in the written file are not the dependency's URLs", file_order, mine)
    if local:
        for u, rel in zip(mine, sheets + scripts):
            sp = urllib.parse.urlsplit(u)
            check(sp.scheme == "" and sp.netloc == "", "local URL parsed as absolute", u)
            path = urllib.parse.unquote(sp.path)
            fp = os.path.normpath(os.path.join(outdir, path))
            check(os.path.isfile(fp), "local URL in the written file does not name a copied file", u, fp)
            with open(fp, "rb") as f1, open(os.path.join(srcroot, *rel.split("/")), "rb") as f2:
                check(f1.read() == f2.read(), "copied file differs from its source", rel)
        tsnap = snapshot_dir(target)
        check(tsnap is not None, "target directory missing after save_html()")
        names = {p for p, k, _ in tsnap}
        check("stale.txt" not in names and not any(p.startswith("old dir") for p in names), "stale contents of the target directory survived", sorted(names))
        if all_files:
            check(tsnap == snapshot_dir(srcroot), "with all_files the copied tree differs from the source tree")
        else:
            expf = sorted(set(listed))
            gotf = sorted(p for p, k, _ in tsnap if k == "f")
            check(gotf == expf, "target directory does not hold exactly the listed files", expf, gotf)
        check(snapshot_dir(bystander) == [("keep.txt", "f", b"keep")], "an unrelated directory was modified")
        for o in others:
            check(snapshot_dir(o) == [("keep.txt", "f", b"keep")], "the directory of another dependency (similar name) was modified or removed", os.path.basename(o))
    else:
        after = snapshot_dir(destdir)
        # only the html file itself may be new (when libdir is empty/None it lives in destdir)
        strip = lambda s: [e for e in (s or []) if e[0] != "index page.html"]
        check(strip(after) == strip(before_all), "URL-sourced / source-less dependency changed the destination directory")
    # second phase: a listed file disappears after a successful copy; copying again must raise, target untouched
    later_fault = False
    if local and src_kind != "libtest" and not all_files and listed and case.get("fault_later"):
        victim = listed[case["missing"][0] % len(listed)] if case["missing"] else listed[0]
        os.remove(os.path.join(srcroot, *victim.split("/")))
        before = snapshot_dir(target)
        try:
            dep.copy_to(destdir, include_version=iv)
            raised = False
        except Exception:  # noqa
            raised = True
        check(raised, "copy_to() did not raise for a listed file that went missing after an earlier successful copy", victim)
        check(snapshot_dir(target) == before, "copy_to() touched the target directory before failing (file missing after an earlier copy)")
        try:
            _save(h, h.HTMLDependency(case["name"], case["version"], source=source, script=[{"src": s} for s in scripts], stylesheet=[{"href": s} for s in sheets]), case, htmlfile, libdir, iv)
            raised = False
        except Exception:  # noqa
            raised = True
        check(raised, "save_html() with an equal, newly built dependency did not raise for the missing file")
        check(snapshot_dir(target) == before, "save_html() touched the target directory before failing")
        later_fault = True
    # the same document object saved a second time with the opposite include_version setting
    resaved = False
    if local and src_kind != "libtest" and case["caller"] in ("doc", "html-doc") and not case.get("fault_later"):
        content2 = h.Tag("div", "hello", h.Tag("span", dep, "x", _add_ws=False))
        docobj = h.HTMLDocument(content2, lang="en") if case["caller"] == "doc" else h.HTMLDocument(h.Tag("html", h.Tag("head", h.Tag("title", "t")), h.Tag("body", content2)))
        out2 = os.path.join(tmp, "out again")
        os.makedirs(out2)
        for k_, iv_ in enumerate((iv, not iv, iv)):
            f_ = os.path.join(out2, "page%d.html" % k_)
            docobj.save_html(f_, libdir=libdir, include_version=iv_)
            with open(f_, encoding="utf-8") as fh:
                t_ = fh.read()
            u_ = []
            for tk in T.tokenize(t_):
                if tk.kind == "open" and tk.name == "script":
                    u_ += [v for k, v in tk.attrs if k == "src"]
                if tk.kind == "open" and tk.name == "link":
                    u_ += [v for k, v in tk.attrs if k == "href"]
            want_ = [D.url(dep_recipe, s_, libdir, iv_) for s_ in sheets + scripts]
            check(u_ == want_, f"saving the same document object again (include_version={iv_}) writes other URLs than a fresh document would", want_, u_)
            for u1 in u_:
                fp_ = os.path.normpath(os.path.join(out2, urllib.parse.unquote(urllib.parse.urlsplit(u1).path)))
                check(os.path.isfile(fp_), "a URL written by the repeated save does not name a copied file", u1)
        resaved = True
    moved = False
    if src_kind == "reldir" and listed:
        # the same relative directory name in another project (other working directory, other file contents)
        root2 = os.path.join(tmp, "project two")
        src2 = os.path.join(root2, "assets", "w dir")
        for comps, data in files:
            p2 = os.path.join(src2, *comps)
            os.makedirs(os.path.dirname(p2), exist_ok=True)
            with open(p2, "wb") as f:
                f.write(b"PROJECT TWO " + data)
        os.chdir(root2)
        dep2 = h.HTMLDependency(case["name"], case["version"], source=dict(source), script=[{"src": s} for s in scripts], stylesheet=[{"href": s} for s in sheets], all_files=all_files)
        dest2 = os.path.join(tmp, "out two")
        os.makedirs(dest2)
        dep2.copy_to(dest2, include_version=iv)
        t2 = os.path.join(dest2, case["name"] + ("-" + case["version"] if iv else ""))
        for rel in listed:
            with open(os.path.join(t2, *rel.split("/")), "rb") as f1, open(os.path.join(src2, *rel.split("/")), "rb") as f2:
                check(f1.read() == f2.read(), "file copied for an equal dependency in another working directory is not that directory's file", rel)
        check(os.path.realpath(dep2.source_path_map()["source"]) == os.path.realpath(src2), "source_path_map()['source'] of a relative directory does not follow the working directory")
        moved = True
    need_enc = any(D.pct(r) != r for r in scripts + sheets)
    note(
        local and need_enc and (any("/" in r for r in scripts + sheets) or libdir != "lib" or not iv),
        "src:" + src_kind,
        "same-relative-directory-in-two-projects" if moved else "",
        "same-document-saved-with-both-include_version-settings" if resaved else "",
        "all_files" if all_files else "",
        "pre:" + case["pre"] if local else "",
        "caller:" + case["caller"],
        "libdir:" + repr(libdir),
        "fault-after-success" if later_fault else "",
    )
    return added_path, pkgname


def _save(h, dep, case, htmlfile, libdir, iv):
    other = h.HTMLDependency("other", "1.0", source={"href": "https://other.example/"}, script={"src": "o.js"}) if case["extra_url_dep"] else None
    content = h.Tag("div", "hello", h.Tag("span", dep, "x", _add_ws=False), other)
    if case["caller"] == "doc":
        return h.HTMLDocument(content, lang="en").save_html(htmlfile, libdir=libdir, include_version=iv)
    if case["caller"] == "tag":
        return content.save_html(htmlfile, libdir=libdir, include_version=iv)
    if case["caller"] in ("html", "html-doc"):
        page = h.Tag("html", h.Tag("head", h.Tag("title", "t")), h.Tag("body", content))
        if case["caller"] == "html":
            return page.save_html(htmlfile, libdir=libdir, include_version=iv)
        return h.HTMLDocument(page).save_html(htmlfile, libdir=libdir, include_version=iv)
    return h.TagList("lead", content).save_html(htmlfile, libdir=libdir, include_version=iv)


def selftest():
    T.selftest()
    assert dedupe_files([[["a"], "00"], [["a", "b"], "01"], [["c", "d"], "02"], [["c"], "03"], [["a"], "04"]]) == [(["a"], b"\x00"), (["c", "d"], b"\x02")]
    import urllib.parse as up

    for s in ["a b/c%d#e?f.js", "\xe9/中.css", "x&y='\".js", "back\\slash", "~-._"]:
        assert D.pct(s) == up.quote(s), (s, D.pct(s), up.quote(s))
        assert up.unquote(D.pct(s)) == s


RULE = (
    "one dependency per case: 1-6 files with hostile names (spaces % # ? & quotes backslash non-ASCII newlines, up to 3 levels), subsets listed as "
    "scripts/stylesheets or all_files, source = directory / synthetic package / htmltools libtest / URL with and without trailing slash / none; "
    "libdir in {None,'', lib, 'x/y z', a/b/c}, include_version on/off, nested output directory, pre-existing target absent/empty/stale, caller "
    "document/tag/list, optional missing listed files (fault). Non-trivial = local source with a name needing percent-encoding and (nested path "
    "or non-default libdir or include_version off), or any fault case; distinct by sha1 of the recipe"
)

CLAUSES = [
    Clause(
        "files",
        body,
        strategy=case_strategy,
        quick=600,
        thorough=5000,
        shards_quick=4,
        required=("fault", "fault-after-success", "src:dir", "src:pkg", "src:url", "src:none", "src:libtest", "src:reldir", "same-relative-directory-in-two-projects", "same-document-saved-with-both-include_version-settings", "all_files", "pre:stale", "caller:tag", "caller:list", "caller:doc", "caller:html"),
        rule="see RULE",
    ),
]
