"""C10 - dependencies are validated, then resolve one per name to the highest version."""

from __future__ import annotations

from hypothesis import strategies as st

from hv import gen
from hv.build import build
from hv.core import Clause, check
from hv.oracle import deps as D
from hv.oracle import snapshot as S

ASSUMPTIONS = [
    "version order is the harness's own key: release as integer tuple with insignificant trailing zeros, dev < a < b < rc < final < post (the generated grammar)",
    "each generated dependency carries a unique id in its head payload, so order/identity is decided on the recipe, not by walking library objects",
    "'rejected' means any exception raised by the constructor",
]

NAMES = ["jq", "JQ", "bs", "d3", "D3", "x-y", "stra\u00dfe", "strasse"]


def versions():
    comp = st.integers(0, 12)
    rel = st.lists(comp, min_size=1, max_size=4).map(lambda xs: ".".join(map(str, xs)))
    suffix = st.sampled_from(["", "", "", "", "a1", "b2", "rc1", ".post1", ".dev3", "rc2", ".post2"])
    return st.builds(lambda r, s: r + s, rel, suffix)


def dep():
    return st.builds(
        lambda n, v, extra: dict({"k": "dep", "name": n, "version": v}, **extra),
        st.sampled_from(NAMES),
        versions(),
        st.sampled_from(
            [
                {},
                {"script": [{"src": "a.js"}], "source": {"href": "http://h/"}},
                {"meta": [{"name": "m", "content": "c"}]},
                {"stylesheet": {"href": "s.css"}, "source": {"href": "/p"}},
                # definitions that carry (almost) nothing: no payload at all, an empty head, empty item lists
                {"bare": "none"},
                {"bare": "empty-head"},
                {"bare": "empty-lists"},
            ]
        ),
    )


def tree():
    text = st.builds(lambda s: {"k": "text", "s": s}, gen.safe_text(0, 3))
    headc = st.sampled_from(
        [
            {"k": "headc", "kids": [{"k": "text", "s": "hc-a"}]},
            {"k": "headc", "kids": [{"k": "text", "s": "hc-b"}]},
            {"k": "headc", "kids": [{"k": "tag", "name": "title", "ws": True, "attrs": [], "kids": [{"k": "text", "s": "T"}]}]},
        ]
    )
    leaf = gen.opaque(st.one_of(dep(), dep(), dep(), text, st.just({"k": "meta"}), headc))

    def tag(ch):
        return st.builds(
            lambda n, ws, k: {"k": "tag", "name": n, "ws": ws, "attrs": [], "kids": k},
            st.sampled_from(["div", "span", "p", "b", "input", "img", "br", "link", "x-custom", "script", "head", "html"] + gen.SPECIAL_NAMES),
            st.booleans(),
            st.lists(ch, max_size=4),
        )

    def lst(ch):
        return st.builds(lambda t, k: {"k": "list", "t": t, "kids": k}, st.sampled_from(["list", "tuple", "taglist"]), st.lists(ch, max_size=3))

    n = leaf
    for _ in range(3):
        n = st.one_of(leaf, tag(n), tag(n), lst(n))
    return st.lists(n, max_size=4)


def repeat_some(nodes, pick):
    """in some child lists one dependency occurs again as the very same object (same uid, "share" key)"""
    out = []
    for i, n in enumerate(nodes):
        if n["k"] in ("tag", "list"):
            n = dict(n, kids=repeat_some(n["kids"], pick // 3 + i))
        out.append(n)
        if n["k"] == "dep" and (pick + i) % 3 == 0:
            out.extend([n] * (1 + (pick // 5) % 2))
    return out


def assign_uids(nodes, counter=None):
    """unique head payload per dependency, in document order"""
    if counter is None:
        counter = [0]
    out = []
    for n in nodes:
        if n["k"] == "dep":
            n = dict(n, uid=counter[0])
            bare = n.pop("bare", None)
            if "_headc" in n:
                pass  # a head_content() item: its payload is its identity (name = hash of the rendering)
            elif bare is None:
                n["head"] = "<!--uid%d-->" % counter[0]
            elif bare == "empty-head":
                n["head"] = []
            elif bare == "empty-lists":
                n.update(head=[{"k": "none"}], script=[], stylesheet=[], meta=[])
            out.append(n)
            counter[0] += 1
        elif n["k"] in ("tag", "list"):
            out.append(dict(n, kids=assign_uids(n["kids"], counter)))
        else:
            out.append(n)
    return out


def _mark_shared(nodes):
    out = []
    for n in nodes:
        if n["k"] == "dep":
            out.append(dict(n, share="u%d" % n["uid"]))
        elif n["k"] in ("tag", "list"):
            out.append(dict(n, kids=_mark_shared(n["kids"])))
        else:
            out.append(n)
    return out


_UIDS: dict = {}  # id(dependency object) -> uid of its recipe, for the tree of the current case


def uid(dep_obj) -> int:
    return _UIDS.get(id(dep_obj), -1)


def _own_walk(objs, out):
    """dependency objects in document order (own traversal of the public child lists)"""
    import htmltools as h

    for o in objs:
        if isinstance(o, h.HTMLDependency):
            out.append(o)
        elif isinstance(o, h.Tag):
            _own_walk(list(o.children), out)
        elif isinstance(o, (list, tuple, h.TagList)):
            _own_walk(list(o), out)
    return out


def body_resolve(case, note):
    import htmltools as h

    # the forest repeated: many dependencies (size-triggered paths), at most ~260 so that a case stays cheap
    from hv.checks.c11 import canon_headc, strip_private

    mult = min(case.get("mult", 1), max(1, 260 // max(1, len(D.preorder(case["roots"])))))
    roots = assign_uids(canon_headc(case["roots"] * mult))  # head_content() items become dependency recipes named by content
    if case.get("repeat"):
        roots = repeat_some(_mark_shared(roots), case["repeat"])
    pre = D.preorder(roots)
    memo: dict = {}
    objs = [build(r, memo) for r in strip_private(roots)]
    tl = h.TagList(*objs)
    pre_uids = [d["uid"] for d in pre]
    placed = _own_walk(list(tl), [])
    check(len(placed) == len(pre), "the tree does not hold the dependencies it was built from", len(pre), len(placed))
    _UIDS.clear()
    for o, d in zip(placed, pre):
        check(_UIDS.setdefault(id(o), d["uid"]) == d["uid"], "harness: object / recipe walk out of step")
        check(o.name == d["name"], "harness: object / recipe walk out of step (name)")
    raw = tl.get_dependencies(dedup=False)
    check([uid(d) for d in raw] == pre_uids, "get_dependencies(dedup=False) dropped or reordered dependencies", pre_uids, [uid(d) for d in raw])
    want = [pre_uids[pre.index(d)] for d in D.resolve(pre)]
    got = tl.get_dependencies()
    check([uid(d) for d in got] == want, "get_dependencies() does not keep one per name / highest version / earliest on ties / first-occurrence order", _desc(pre, want), _desc(pre, [uid(d) for d in got]))
    check(all(any(g is r for r in raw) for g in got), "resolved dependencies are not the collected objects themselves")
    rd = tl.render()["dependencies"]
    # render() works on a copy of the tree: its dependencies are compared by value with the resolved objects
    want_objs = [placed[pre_uids.index(u)] for u in want]
    check([S.snap(d) for d in rd] == [S.snap(d) for d in want_objs], "render()['dependencies'] differs from the resolved list (by value)", _desc(pre, want), [(d.name, str(d.version)) for d in rd])
    check([S.snap(d) for d in rd] == [S.snap(d) for d in got], "render()['dependencies'] are not value-equal to the resolved objects")
    again = h.TagList(*got).get_dependencies()
    check(len(again) == len(got) and all(a is b for a, b in zip(again, got)), "resolution is not idempotent")
    flat = h.TagList(*raw).get_dependencies()
    check(len(flat) == len(got) and all(a is b for a, b in zip(flat, got)), "resolution depends on where the dependencies sit in the tree")
    wrapped = h.Tag("div", h.Tag("span", tl, _add_ws=False))
    check([uid(d) for d in wrapped.get_dependencies()] == want, "Tag.get_dependencies() differs when the same content is nested two levels deeper")
    check([uid(d) for d in wrapped.get_dependencies(dedup=False)] == pre_uids, "Tag.get_dependencies(dedup=False) dropped or reordered")
    check([uid(d) for d in wrapped.get_dependencies(False)] == pre_uids, "Tag.get_dependencies(False) (positional) dropped or reordered")
    # history: the tree was queried (above); a dependency is then added somewhere below and the tree is queried again
    all_tags = []

    def _walk_tags(objs_):
        for o in objs_:
            if isinstance(o, h.Tag):
                all_tags.append(o)
                _walk_tags(list(o.children))

    _walk_tags(list(tl))
    grown = False
    if all_tags:
        pick = case.get("repeat", 0) + len(pre)
        target = all_tags[pick % len(all_tags)]
        nd = h.HTMLDependency("added-later", "9.9", head="<late>")
        if pick % 2:
            target.children.append(nd)
        else:
            target.append("t", [nd])
        now = _own_walk(list(tl), [])
        got_now = tl.get_dependencies(dedup=False)
        check(len(got_now) == len(now) and all(a is b for a, b in zip(got_now, now)), "after a dependency was added below an already queried tag, get_dependencies(dedup=False) is not the dependencies in document order", [getattr(d, "name", "?") for d in now], [getattr(d, "name", "?") for d in got_now])
        check(any(d is nd for d in tl.get_dependencies()), "a dependency added after an earlier query is missing from get_dependencies()")
        check(any(d.name == "added-later" for d in tl.render()["dependencies"]), "a dependency added after an earlier query is missing from render()['dependencies']")
        grown = True
    # non-trivial: same name with versions whose lexical and numeric order disagree, or an equal-version tie
    nt = False
    byname: dict = {}
    for d in pre:
        byname.setdefault(d["name"], []).append(d["version"])
    tie = lexdis = False
    for vs in byname.values():
        for i in range(len(vs)):
            for j in range(i + 1, len(vs)):
                a, b = vs[i], vs[j]
                ka, kb = D.vkey(a), D.vkey(b)
                if ka == kb:
                    tie = True
                elif (ka < kb) != (a < b):
                    lexdis = True
    note(tie or lexdis, "same-object-repeated" if case.get("repeat") and len(pre_uids) > len(set(pre_uids)) else "", "tie" if tie else "", "lexical-vs-numeric" if lexdis else "", "nested-depth" if any(n["k"] in ("tag", "list") for n in roots) else "", "suffix" if any(not d["version"].replace(".", "").isdigit() for d in pre) else "",
         "more-than-64-dependencies" if len(pre) > 64 else "", "more-than-200-dependencies" if len(pre) > 200 else "", "bare-definition" if any("head" not in d or d["head"] == [] or d.get("script") == [] for d in pre) else "",
         "queried-then-grown-then-queried" if grown else "",
         "head_content-before-a-dependency" if any("_headc" in d and any("_headc" not in e for e in pre[i + 1 :]) for i, d in enumerate(pre)) else "")


def _desc(pre, idx):
    return [(pre[i]["name"], pre[i]["version"], i) for i in idx]


# ---------------------------------------------------------------- single item vs list


def item_dicts(key):
    extra = st.dictionaries(st.sampled_from(["defer", "media", "integrity", "type"]), gen.safe_text(0, 3), max_size=2)
    if key == "script":
        return st.builds(lambda f, e: dict(e, src=f), gen.safe_text(1, 5), extra)
    if key == "stylesheet":
        return st.builds(lambda f, e: dict(e, href=f), gen.safe_text(1, 5), extra)
    return st.builds(lambda n, c, e: dict(e, name=n, content=c), gen.safe_text(1, 4), gen.safe_text(0, 4), extra)


def single_case():
    return st.fixed_dictionaries(
        {
            "script": st.none() | item_dicts("script"),
            "stylesheet": st.none() | item_dicts("stylesheet"),
            "meta": st.none() | item_dicts("meta"),
            "source": st.sampled_from([None, {"href": "http://x/y"}, {"package": "htmltools", "subdir": "libtest/testdep"}, {"subdir": "rel/dir"}]),
            "lib": st.sampled_from(["lib", None]),
        }
    )


def body_single(case, note):
    import htmltools as h

    kw1, kw2 = {}, {}
    n = 0
    for k in ("script", "stylesheet", "meta"):
        if case[k] is not None:
            kw1[k] = dict(case[k])
            kw2[k] = [dict(case[k])]
            n += 1
    if case["source"] is not None:
        kw1["source"] = dict(case["source"])
        kw2["source"] = dict(case["source"])
    a = h.HTMLDependency("n", "1.2", **kw1)
    b = h.HTMLDependency("n", "1.2", **kw2)
    check(S.snap(a) == S.snap(b), "single item and one-element list give different dependencies", S.snap(a), S.snap(b))
    check(a == b, "single item and one-element list dependencies are not ==")
    ta = a.as_html_tags(lib_prefix=case["lib"]).get_html_string()
    tb = b.as_html_tags(lib_prefix=case["lib"]).get_html_string()
    check(ta == tb, "single item and one-element list render different head markup", ta, tb)
    check(a.as_dict(lib_prefix=case["lib"]) == b.as_dict(lib_prefix=case["lib"]), "as_dict differs between single item and list")
    note(n >= 2, "with-source" if case["source"] else "")


# ---------------------------------------------------------------- invalid definitions

BAD_ITEMS = [3, "s", ["src", "x"], None, 1.5, [["href", "a.css"]], [["src", "a.js"]], [["name", "n"], ["content", "c"]], [["href", "a.css"], ["rel", "x"]],
             # objects that implement the mapping protocol and carry every required key, but are not dicts
             {"mapping": "proxy"}, {"mapping": "userdict"}, {"mapping": "chainmap"}]


def _mapping(kind, content):
    import collections
    import types

    if kind == "proxy":
        return types.MappingProxyType(dict(content))
    if kind == "userdict":
        return collections.UserDict(content)
    return collections.ChainMap(dict(content), {})


def invalid_case():
    field = st.sampled_from(["source", "script", "stylesheet", "meta"])
    return st.fixed_dictionaries(
        {
            "field": field,
            "n_items": st.integers(1, 3),
            "at": st.integers(0, 2),
            "how": st.sampled_from(["non-dict", "missing-key", "missing-key2", "empty-dict", "alias-key", "alias-key2"]),
            "bad": st.sampled_from(BAD_ITEMS),
            "bad_source": st.sampled_from(BAD_SOURCES),
            "single": st.booleans(),
        }
    )


BAD_SOURCES = [3, "lib/", ["a"], {"package": "htmltools"}, {}, {"dir": "x"}, 2.5, {"mapping": "proxy"}, {"mapping": "userdict"}, {"mapping": "chainmap"}]


def enum_invalid(tier):
    """the complete product of the invalid-definition space (field x number of items x position x form x kind of defect)"""
    for bs in BAD_SOURCES:
        yield {"field": "source", "n_items": 1, "at": 0, "how": "non-dict", "bad": 3, "bad_source": bs, "single": False}
    for f in ("script", "stylesheet", "meta"):
        for n_items in (1, 2, 3):
            for at in range(n_items):
                for single in (False, True):
                    if single and n_items != 1:
                        continue
                    for how in ("missing-key", "missing-key2", "empty-dict", "alias-key", "alias-key2"):
                        yield {"field": f, "n_items": n_items, "at": at, "how": how, "bad": 3, "bad_source": 3, "single": single}
                    for bad in BAD_ITEMS:
                        yield {"field": f, "n_items": n_items, "at": at, "how": "non-dict", "bad": bad, "bad_source": 3, "single": single}


REQ = {"script": ["src"], "stylesheet": ["href"], "meta": ["name", "content"]}
ALIASES = {"src": ["href", "source", "SRC", "url"], "href": ["src", "url", "HREF", "link"], "name": ["http-equiv", "property", "itemprop", "charset"], "content": ["value", "contents", "http-equiv"]}


def body_invalid(case, note):
    import htmltools as h

    f = case["field"]
    valid_items = {
        "script": [{"src": "a%d.js" % i} for i in range(case["n_items"])],
        "stylesheet": [{"href": "a%d.css" % i} for i in range(case["n_items"])],
        "meta": [{"name": "n%d" % i, "content": "c"} for i in range(case["n_items"])],
    }
    base = {k: [dict(x) for x in v] for k, v in valid_items.items()}
    base["source"] = {"href": "http://ok/"}
    # control: the valid neighbour constructs
    h.HTMLDependency("v", "1.0", **{k: ([dict(x) for x in v] if isinstance(v, list) else dict(v)) for k, v in base.items()})
    bad = {k: ([dict(x) for x in v] if isinstance(v, list) else dict(v)) for k, v in base.items()}
    cls = f
    if f == "source":
        bad["source"] = case["bad_source"]
        cls = "source:" + type(case["bad_source"]).__name__
        if isinstance(case["bad_source"], dict) and "mapping" in case["bad_source"]:
            bad["source"] = _mapping(case["bad_source"]["mapping"], {"href": "http://ok/"})
            cls = "source:non-dict-mapping"
    else:
        i = case["at"] % case["n_items"]
        if case["how"] == "non-dict":
            if case["bad"] is None and True:
                bad[f][i] = 0
            elif isinstance(case["bad"], dict) and "mapping" in case["bad"]:
                bad[f][i] = _mapping(case["bad"]["mapping"], valid_items[f][i])
            else:
                bad[f][i] = case["bad"]
            cls = f + ":non-dict-item"
            if isinstance(case["bad"], dict) and "mapping" in case["bad"]:
                cls = f + ":non-dict-mapping-item"
        elif case["how"] == "empty-dict":
            bad[f][i] = {}
            cls = f + ":empty-dict-item"
        else:
            req = REQ[f]
            key = req[0] if case["how"] in ("missing-key", "alias-key") else req[-1]
            item = dict(bad[f][i])
            del item[key]
            item["other"] = "x"
            if case["how"].startswith("alias-key"):
                # the required key is missing, a related / similarly named one is there instead
                for alias in ALIASES[key]:
                    item[alias] = "a.x"
            bad[f][i] = item
            cls = f + ":missing-" + key + ("+alias" if case["how"].startswith("alias-key") else "")
        if case["single"] and case["n_items"] == 1:
            bad[f] = bad[f][0]
            cls += ":single"
    try:
        h.HTMLDependency("bad", "1.0", **bad)
        raised = False
    except Exception:  # noqa
        raised = True
    check(raised, f"invalid dependency definition accepted at construction ({cls})", bad)
    note(True, cls, "index>0" if f != "source" and case["at"] % case["n_items"] > 0 else "")


def selftest():
    assert D.vkey("1.9") < D.vkey("1.10") and D.vkey("1.10") == D.vkey("1.10.0") and D.vkey("2") > D.vkey("1.99")
    assert D.vkey("1.0.dev3") < D.vkey("1.0a1") < D.vkey("1.0b2") < D.vkey("1.0rc1") < D.vkey("1.0") < D.vkey("1.0.post1")
    from packaging.version import Version

    vs = ["1.0.dev3", "1.0a1", "1.0b2", "1.0rc1", "1.0", "1.0.post1", "1.10", "1.9", "1.10.0", "0", "0.0", "12.0.1rc2", "3.post2", "3.0.0.post2"]
    for a in vs:
        for b in vs:
            assert (Version(a) < Version(b)) == (D.vkey(a) < D.vkey(b)), (a, b)
            assert (Version(a) == Version(b)) == (D.vkey(a) == D.vkey(b)), (a, b)


RULE = (
    "resolve: forests with 0-12 dependencies (4 names, versions N(.N){0,3} with N in 0..12 and optional a/b/rc/post/dev suffix) at any "
    "depth inside tags, lists, tuples and TagLists; non-trivial = two dependencies of one name whose lexical and numeric order disagree, or "
    "an equal-version tie. single: single item vs one-element list. invalid: one invalid field/item at a generated index; distinct by sha1"
)

CLAUSES = [
    Clause(
        "resolve",
        body_resolve,
        strategy=lambda: st.fixed_dictionaries({"roots": tree(), "repeat": st.one_of(st.just(0), st.integers(1, 10**6)), "mult": st.sampled_from([1] * 12 + [3, 12, 40, 150])}),
        quick=900,
        thorough=12000,
        shards_quick=4,
        required=("tie", "lexical-vs-numeric", "nested-depth", "suffix", "same-object-repeated", "more-than-64-dependencies", "more-than-200-dependencies", "bare-definition", "head_content-before-a-dependency", "queried-then-grown-then-queried"),
        rule="see RULE",
    ),
    Clause("single", body_single, strategy=single_case, quick=400, thorough=3000, shards_quick=1, shards_thorough=4, rule=">=2 of script/stylesheet/meta given"),
    Clause(
        "invalid",
        body_invalid,
        source="enum",
        enum=enum_invalid,
        shards_quick=2,
        shards_thorough=4,
        required=("script:missing-src", "stylesheet:missing-href", "meta:missing-name", "meta:missing-content", "script:non-dict-item", "source:dict", "source:int", "index>0", "source:non-dict-mapping", "script:non-dict-mapping-item", "script:empty-dict-item:single", "meta:empty-dict-item:single", "stylesheet:empty-dict-item", "meta:missing-name+alias", "script:missing-src+alias"),
        rule="every case",
    ),
]
