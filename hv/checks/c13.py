"""C13 - serialised dependencies round-trip through HTML text.

serialize : the JSON <script> form: frame, no end-tag-like '</script', json round-trip      (Hypothesis)
extract   : interleavings of serialisations and text -> HTMLTextDocument recovers equal
            dependencies once each in order, removes every script, first-occurrence
            placeholder replacement with the markup assembled from D                       (Hypothesis)
jsonmode  : html_dependency_render_mode='json' + HTMLTextDocument == direct rendering        (Hypothesis)
"""

from __future__ import annotations

import json
import re

from hypothesis import strategies as st

from hv import gen
from hv.build import build, build_dep
from hv.core import Clause, check
from hv.oracle import deps as D
from hv.oracle import tokenizer as T

ASSUMPTIONS = [
    "'end-tag-like' is read narrowly: '</script' in any letter case followed by whitespace, '/' or '>' (an appropriate end tag for the HTML tokenizer)",
    "text pieces never contain the exact opening marker of a serialisation (such text is by definition another serialisation)",
    "stylesheet items carry no 'rel' of their own; versions are canonical PEP 440 spellings",
    "comparison with HTMLDocument's head is made on token streams and only when dependency names are distinct and head payloads are benign",
]

OPEN = '<script type="application/json" data-html-dependency="">'
CLOSE = "</script>"
ENDTAG = re.compile(r"(?i)</script[\t\n\f\r />]")
SCRIPT_HOT = ["</script>", "</SCRIPT>", "</script >", "</ScRiPt/", "</script\n>", "<!--", "-->", '"', "\\", "\n", " ", "</scrip", "<\\/script>", "</script", "<script>", OPEN, "\\u003c", "\\\"", "'"]


def hostile():
    return st.one_of(
        gen.any_text(),
        st.lists(st.one_of(st.sampled_from(SCRIPT_HOT), st.sampled_from(SCRIPT_HOT), gen.safe_text(0, 3)), max_size=5).map("".join),
        gen.safe_text(0, 6),
    )


VERSIONS = ["1.0", "0.0.1", "2.1rc1", "1.0.post2", "1!2.3", "1.0+local.1", "3.0.dev1", "1.0a2", "10.20.30", "0"]


def _no_nul(s):
    return s.replace("\x00", "0")


def dep_strategy(benign_head=False, renderable=True, benign_keys=False):
    """renderable: a package source must name an importable package, since computing URLs imports it"""
    keys = st.sampled_from(["defer", "integrity", "media", "type", "data-x"])
    if not benign_keys:
        keys = st.one_of(keys, hostile().filter(lambda k: k not in ("src", "href", "rel", "name", "content")))
    extras = st.dictionaries(keys, hostile(), max_size=2)
    subdir = hostile().map(_no_nul) if renderable else hostile()
    script = st.lists(st.builds(lambda s, e: dict({"src": s}, **e), hostile(), extras), max_size=2)
    sheet = st.lists(st.builds(lambda s, e: dict({"href": s}, **e), hostile(), extras), max_size=2)
    meta = st.lists(st.builds(lambda n, c: {"name": n, "content": c}, hostile(), hostile()), max_size=2)
    source = st.one_of(
        st.none(),
        st.builds(lambda s: {"href": s}, hostile()),
        st.builds(lambda p, s: {"package": p, "subdir": s}, st.sampled_from([None, "htmltools"]) if renderable else st.one_of(st.none(), hostile()), subdir),
        st.builds(lambda s: {"subdir": s}, subdir),
    )
    if benign_head:
        head = st.sampled_from([None, "plain", [{"k": "tag", "name": "title", "ws": True, "attrs": [], "kids": [{"k": "text", "s": "T&t"}]}]])
    else:
        head = st.one_of(
            st.none(),
            hostile(),
            st.builds(lambda s: {"html": s}, hostile()),
            st.lists(st.one_of(st.builds(lambda s: {"k": "text", "s": s}, hostile()), st.builds(lambda s: {"k": "tag", "name": "style", "ws": True, "attrs": [["title", s]], "kids": [{"k": "text", "s": s}]}, hostile())), max_size=2),
        )
    return st.builds(
        lambda n, v, src, sc, sh, me, af, hd: {"k": "dep", "name": n, "version": v, "source": src, "script": sc, "stylesheet": sh, "meta": me, "all_files": af, "head": hd},
        hostile(),
        st.sampled_from(VERSIONS),
        source,
        script,
        sheet,
        meta,
        st.booleans(),
        head,
    )


def fields(d):
    """comparable field tuple of a dependency object"""
    return {
        "name": d.name,
        "version": str(d.version),
        "source": d.source,
        "script": d.script,
        "stylesheet": d.stylesheet,
        "meta": d.meta,
        "all_files": d.all_files,
        "head": None if d.head is None else d.head.get_html_string(),
    }


def has_script_variant(r) -> bool:
    return "</script" in json.dumps(r).lower().replace("<\\\\/", "</")


# ---------------------------------------------------------------- (i) serialize


def body_serialize(case, note):
    d = build_dep(case["dep"])
    want = fields(d)
    s = d.serialize_to_script_json(case["indent"]).get_html_string()
    check(s.startswith(OPEN) and s.endswith(CLOSE) and len(s) >= len(OPEN) + len(CLOSE), "serialised element does not have the expected frame", s)
    inner = s[len(OPEN) : -len(CLOSE)]
    m = ENDTAG.search(inner)
    check(m is None, "end-tag-like '</script' inside the serialised element before its own closing tag", m.group(0) if m else "", s)
    m2 = ENDTAG.search(s)
    check(m2 is not None and m2.start() == len(s) - len(CLOSE), "the first end tag of the serialised element is not its own closing tag", s)
    try:
        back = json.loads(inner)
    except ValueError as e:
        check(False, f"script content is not valid JSON: {e}", inner)
    check(back == {k: want[k] for k in back} and set(back) == set(want), "JSON content does not give back the dependency's fields", want, back)
    toks = T.tokenize(s)
    check([t.kind for t in toks] in (["open", "text", "close"], ["open", "close"]) and toks[-1].name == "script", "tokenizer does not read one script element", [repr(t) for t in toks][:6])
    blob = json.dumps(case["dep"])
    note(any(c in blob for c in ('\\"', "\\\\", "\\n")) or has_script_variant(case["dep"]), "script-end-variant" if has_script_variant(case["dep"]) else "", "indent:" + str(case["indent"]))


# ---------------------------------------------------------------- (ii) extract / render


def sanitize_piece(s: str) -> str:
    while OPEN in s:
        s = s.replace(OPEN, "<script data-removed>")
    return s


def doc_case():
    piece = st.one_of(hostile(), st.sampled_from(["<p>x</p>", "</script>", "<script>var a;</script>", "\n", "PLACEHOLDER", "<head>PLACEHOLDER</head>", "", "PLACEHOLDER PLACEHOLDER", "<meta data-foo=\"\">"]), st.sampled_from(["PLACEHOLDER", "<head>PLACEHOLDER</head><body>PLACEHOLDER</body>"]))
    return st.fixed_dictionaries(
        {
            "deps": st.lists(st.tuples(dep_strategy(), st.sampled_from([None, 0, 2, 4])).map(list), max_size=3),
            "layout": st.lists(st.one_of(st.tuples(st.just("t"), piece), st.tuples(st.just("d"), st.integers(0, 5))).map(list), max_size=8),
            "pattern": st.one_of(st.just("PLACEHOLDER"), st.just("PLACEHOLDER"), st.just("<meta data-foo=\"\">"), hostile().filter(lambda s: len(s) > 0)),
            "explicit": st.integers(0, 2),
            "lib": st.sampled_from(["lib", None, "p/q"]),
            "iv": st.booleans(),
            # the first dependency serialised once more, with another (or the same) indent argument
            "twin_indent": st.sampled_from(["-", "-", "-", None, 0, 2, 4]),
        }
    )


def version_str(recipe) -> str:
    from packaging.version import Version  # only to print a version the way the dependency object does

    return str(Version(recipe["version"]))


def expected_markup(recipes, lib, iv):
    """TagList(listing, *markup) assembled from D's descriptions with plain Tags"""
    import htmltools as h

    if not recipes:
        return ""
    parts = [build(D.listing_tag(recipes, version_of=version_str))]
    for r in recipes:
        rr = dict(r, stylesheet=[dict(s) for s in D.as_list(r.get("stylesheet"))])
        parts.extend(build(x) for x in D.markup(rr, lib, iv, version_str(r)))
    return h.TagList(*parts).get_html_string()


def body_extract(case, note):
    import htmltools as h

    cdeps = list(case["deps"])
    twin = case.get("twin_indent", "-")
    if twin != "-" and cdeps:
        cdeps.append([cdeps[0][0], twin])
    deps = [(build_dep(r), ind, r) for r, ind in cdeps]
    sers = [d.serialize_to_script_json(ind).get_html_string() for d, ind, _ in deps]
    # alternate text and serialisations, merging adjacent text pieces
    parts = []
    for kind, v in case["layout"]:
        if kind == "t":
            if parts and parts[-1][0] == "t":
                parts[-1] = ("t", parts[-1][1] + v)
            else:
                parts.append(("t", v))
        elif deps:
            parts.append(("d", v % len(deps)))
    parts = [(k, sanitize_piece(v) if k == "t" else v) for k, v in parts]
    doc = "".join(v if k == "t" else sers[v] for k, v in parts)
    text_only = "".join(v for k, v in parts if k == "t")
    order = []
    seen_text = set()
    for k, v in parts:
        if k == "d" and sers[v] not in seen_text:
            seen_text.add(sers[v])
            order.append(v)
    n_explicit = min(case["explicit"], len(deps))
    explicit = [build_dep(cdeps[i][0]) for i in range(n_explicit)]
    pattern = case["pattern"]
    td = h.HTMLTextDocument(doc, deps=list(explicit) if n_explicit else None, deps_replace_pattern=pattern)
    # a recovered dependency carries its head as one HTML() string with identical markup
    def recovered(i):
        d, _, r = deps[i]
        return dict(r, head=None if d.head is None else {"html": d.head.get_html_string()})

    want_recipes = [cdeps[i][0] for i in range(n_explicit)] + [recovered(i) for i in order]
    want_fields = [fields(build_dep(r)) for r in want_recipes]
    r = td.render(lib_prefix=case["lib"], include_version=case["iv"])
    got_fields = [fields(d) for d in r["dependencies"]]
    check(got_fields == want_fields, "recovered dependencies are not equal field-by-field / once per distinct serialisation / in order of appearance", want_fields, got_fields)
    x = expected_markup(want_recipes, case["lib"], case["iv"])
    i = text_only.find(pattern)
    exp = text_only if i < 0 else text_only[:i] + x + text_only[i + len(pattern) :]
    check(r["html"] == exp, "render() is not the text with every serialised script removed and only the first placeholder replaced by the dependency markup", exp, r["html"])
    r2 = td.render(lib_prefix=case["lib"], include_version=case["iv"])
    check(r2["html"] == r["html"] and [fields(d) for d in r2["dependencies"]] == got_fields, "render() twice differs")
    dup = len([1 for k, v in parts if k == "d"]) > len(order)
    note(len(order) >= 2 and dup, "placeholder-present" if i >= 0 else "placeholder-absent", "placeholder-multiple" if text_only.count(pattern) > 1 else "", "explicit-deps" if n_explicit else "", "dup-serialisation" if dup else "", "no-deps" if not want_recipes else "",
         "same-dependency-serialised-with-two-indents" if len({sers[v] for v in order if cdeps[v][0] == cdeps[0][0]}) >= 2 else "")


# ---------------------------------------------------------------- same markup as HTMLDocument's head


def body_headsame(case, note):
    import htmltools as h

    recipes = []
    names = set()
    for r in case["deps"]:
        if r["name"] in names:
            continue
        names.add(r["name"])
        recipes.append(r)
    objs = [build_dep(r) for r in recipes]
    doc = "<html><head>PH</head><body>" + "".join(o.serialize_to_script_json().get_html_string() for o in objs) + "</body></html>"
    r = h.HTMLTextDocument(doc, deps_replace_pattern="PH").render(lib_prefix=case["lib"], include_version=case["iv"])
    pre, post = "<html><head>", "</head><body></body></html>"
    check(r["html"].startswith(pre) and r["html"].endswith(post), "text outside the placeholder changed", r["html"])
    repl = r["html"][len(pre) : len(r["html"]) - len(post)]
    hd = h.HTMLDocument(*[build_dep(x) for x in recipes]).render(lib_prefix=case["lib"], include_version=case["iv"])["html"]
    a = hd.index("<head>") + len("<head>")
    b = hd.rindex("</head>")  # a dependency *name* may itself contain "</head>": the real end tag is the last one (the body is empty)
    head_inner = hd[a:b]

    def stream(s):
        out = []
        for t in T.tokenize(s):
            if t.kind == "text":
                if t.data.strip():
                    out.append(("text", t.data.strip()))
            else:
                out.append((t.kind, t.name, tuple(t.attrs), t.selfclosing))
        return out

    s1 = stream(repl)
    s2 = stream(head_inner)
    check(s2[:1] == [("open", "meta", (("charset", "utf-8"),), True)], "HTMLDocument head does not start with the charset meta")
    check(s1 == s2[1:], "HTMLTextDocument's replacement differs from what HTMLDocument puts in <head>", s2[1:], s1)
    note(len(recipes) >= 2)


# ---------------------------------------------------------------- (iii) JSON mode


def tree_strategy():
    leaf = gen.opaque(st.one_of(dep_strategy(), dep_strategy(), st.builds(lambda s: {"k": "text", "s": s}, hostile())))

    def tag(ch):
        return st.builds(lambda n, ws, k: {"k": "tag", "name": n, "ws": ws, "attrs": [], "kids": k}, st.sampled_from(["div", "span", "p"]), st.booleans(), st.lists(ch, max_size=4))

    n = st.one_of(leaf, tag(leaf))
    n = st.one_of(leaf, tag(n), tag(n))
    return st.lists(st.one_of(tag(n), leaf), min_size=1, max_size=3)


def body_jsonmode(case, note):
    import htmltools as h

    objs = [build(r) for r in case["roots"]]
    x = h.TagList(*objs) if case["as_list"] or not isinstance(objs[0], h.Tag) else objs[0]
    direct = x.render()
    check(h.html_dependency_render_mode == "invisible", "harness: unexpected global render mode")
    h.html_dependency_render_mode = "json"
    try:
        s = str(x)
    finally:
        h.html_dependency_render_mode = "invisible"
    td = h.HTMLTextDocument(s, deps_replace_pattern="\x00no-placeholder\x00")
    r = td.render()
    check(r["html"].startswith(direct["html"]), "JSON-mode text post-processed by HTMLTextDocument does not start with the direct rendering", direct["html"], r["html"])
    rest = r["html"][len(direct["html"]) :]
    check(rest.strip("\n\r\t ") == "", "something other than separators is left after removing the serialised scripts", rest)
    check([fields(d) for d in r["dependencies"]] == [fields(d) for d in direct["dependencies"]], "JSON mode + HTMLTextDocument recovers different dependencies than direct rendering", [fields(d) for d in direct["dependencies"]], [fields(d) for d in r["dependencies"]])
    check(str(x) == direct["html"], "global render mode not restored / str() differs from render() in default mode")
    note(len(direct["dependencies"]) >= 2, "deps:%d" % min(len(direct["dependencies"]), 3))


def selftest():
    T.selftest()
    assert ENDTAG.search("</SCRIPT >") and ENDTAG.search("</script/") and not ENDTAG.search("<\\/script>") and not ENDTAG.search("</scriptx")
    assert sanitize_piece("a" + OPEN + "b") == "a<script data-removed>b"


RULE = (
    "dependencies whose every string field is metacharacter-dense (quotes, backslashes, newlines, U+2028, '</script' in several letter cases and "
    "trailing characters, '<!--', the serialisation marker itself); indent in {None,0,2,4}; documents = up to 8 interleaved text pieces and "
    "serialisations with repeats; placeholder of any non-empty text. Non-trivial: (serialize) a field with a quote, backslash, newline or "
    "'</script' variant; (extract) >=2 distinct serialisations with a duplicate; (jsonmode) >=2 resolved dependencies; distinct by sha1"
)

CLAUSES = [
    Clause(
        "serialize",
        body_serialize,
        strategy=lambda: st.fixed_dictionaries({"dep": dep_strategy(renderable=False), "indent": st.sampled_from([None, 0, 2, 4])}),
        quick=600,
        thorough=12000,
        shards_quick=3,
        required=("script-end-variant",),
        rule="see RULE",
        fuzz=60000,
    ),
    Clause("extract", body_extract, strategy=doc_case, quick=300, thorough=6000, shards_quick=4, required=("placeholder-present", "placeholder-absent", "placeholder-multiple", "explicit-deps", "dup-serialisation", "no-deps", "same-dependency-serialised-with-two-indents"), rule="see RULE"),
    Clause(
        "headsame",
        body_headsame,
        strategy=lambda: st.fixed_dictionaries({"deps": st.lists(dep_strategy(benign_head=True, benign_keys=True), max_size=3), "lib": st.sampled_from(["lib", None]), "iv": st.booleans()}),
        quick=200,
        thorough=3000,
        shards_quick=2,
        rule=">=2 dependencies",
    ),
    Clause("jsonmode", body_jsonmode, strategy=lambda: st.fixed_dictionaries({"roots": tree_strategy(), "as_list": st.booleans()}), quick=250, thorough=5000, shards_quick=3, rule=">=2 resolved dependencies"),
]
