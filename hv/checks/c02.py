"""C02 - plain-text children are inert data.

codepoints : every Unicode scalar value, through html_escape and every emitting path   (exhaustive)
short      : every string of length <= L over a 13-symbol metacharacter alphabet         (exhaustive)
slots      : random trees with text slots in every child position / way of adding a
             child; placeholder-template relation against the lock-step matcher E       (Hypothesis)
"""

from __future__ import annotations

import itertools
import re

from hypothesis import strategies as st

from hv import gen
from hv.build import Tfy
from hv.core import Clause, Violation, check
from hv.oracle import escape as E

ASSUMPTIONS = [
    "E decides 'replaced by a character reference that decodes to it' with html.unescape; the spelling of a reference is not fixed",
    "slots clause: layout depends on node kinds only, so the rendering with placeholders is the template for the rendering with the real texts",
    "script/style parents are excluded (their text is trusted by design, C04)",
]

META = E.TEXT_META
ALPHABET = ["&", "<", ">", '"', "'", ";", "#", "a", "x", "3", " ", "\n", "\r"]


def fast_match_all(out: str, text: str) -> bool:
    """out is exactly text with & < > replaced by references decoding to them, all else unchanged."""
    if not (META & set(text)):
        return out == text
    ends = E.match(out, 0, text, META, META)
    return len(out) in ends


# ------------------------------------------------------------------ code points


def scalar_values(lo: int, hi: int):
    for cp in range(lo, hi):
        if 0xD800 <= cp <= 0xDFFF:
            continue
        yield cp


CHUNK = 1024


def enum_codepoints(tier):
    for lo in range(0, 0x110000, CHUNK):
        yield {"lo": lo, "hi": min(lo + CHUNK, 0x110000)}


def _emit_paths(s: str):
    import htmltools as h

    yield "Tag('div', s)", h.Tag("div", s).get_html_string(), "<div>", "</div>"
    yield "Tag('div', s, 'x')", h.Tag("div", s, "x").get_html_string(), "<div>\n  ", "x\n</div>"
    yield "Tag('span', 'x', s, _add_ws=False)", h.Tag("span", "x", s, _add_ws=False).get_html_string(), "<span>x", "</span>"
    yield "TagList(s)", h.TagList(s).get_html_string(), "", ""
    yield "TagList('x', s)", h.TagList("x", s).get_html_string(), "x", ""
    yield "render", h.Tag("p", h.Tag("b", s, _add_ws=False), s).render()["html"], None, None
    t = h.Tag("div")
    t.append(s)
    yield "append", t.get_html_string(), "<div>", "</div>"


def _check_string_paths(s: str):
    import htmltools as h

    for label, out, pre, post in _emit_paths(s):
        if pre is None:
            # <p>\n  <b>S</b>S\n</p>
            pre1 = "<p>\n  <b>"
            if not out.startswith(pre1):
                return label
            ends = E.match(out, len(pre1), s, META, META)
            ok = False
            for e in ends:
                if out.startswith("</b>", e):
                    ends2 = E.match(out, e + 4, s, META, META)
                    if any(out[e2:] == "\n</p>" for e2 in ends2):
                        ok = True
            if not ok:
                return label
            continue
        if not (out.startswith(pre) and out.endswith(post) and len(out) >= len(pre) + len(post)):
            return label
        mid = out[len(pre) : len(out) - len(post)]
        if not fast_match_all(mid, s):
            return label
    if not fast_match_all(h.html_escape(s), s):
        return "html_escape(s)"
    if not fast_match_all(h.html_escape(s, attr=False), s):
        return "html_escape(s, attr=False)"
    return None


def body_codepoints(case, note):
    import htmltools as h

    if "s" in case:  # replay of a single offending string
        bad = _check_string_paths(case["s"])
        check(bad is None, f"text {case['s']!r} is not emitted inertly through {bad}")
        note(True)
        return
    cps = list(scalar_values(case["lo"], case["hi"]))
    if not cps:
        note.bulk(1, 0)
        return
    esc = h.html_escape
    nmeta = 0
    for cp in cps:
        c = chr(cp)
        o1 = esc(c)
        s2 = "a" + c + c + "b"
        o2 = esc(s2)
        if c in META:
            nmeta += 1
            ok = fast_match_all(o1, c) and fast_match_all(o2, s2)
        else:
            ok = o1 == c and o2 == s2
        if not ok:
            raise Violation(f"html_escape mishandles U+{cp:04X}: {o1!r} / {o2!r}", case={"s": c})
    chunk = "".join(chr(cp) for cp in cps)
    bad = _check_string_paths(chunk)
    if bad is not None:
        # bisect to one code point
        for cp in cps:
            b = _check_string_paths(chr(cp))
            if b is not None:
                raise Violation(f"U+{cp:04X} is not emitted inertly through {b}", case={"s": chr(cp)})
        raise Violation(f"chunk U+{case['lo']:04X}.. is not emitted inertly through {bad}", case={"s": chunk})
    note.bulk(len(cps), len(cps), sample={"lo": case["lo"], "hi": case["hi"]} if case["lo"] in (0, 0x2000) else None, metachar_codepoints=nmeta)


# ------------------------------------------------------------------ short strings


def enum_short(tier):
    maxlen = 4 if tier == "quick" else 6
    for L in range(0, maxlen + 1):
        total = len(ALPHABET) ** L
        step = 20000
        for lo in range(0, total, step):
            yield {"len": L, "lo": lo, "hi": min(total, lo + step)}


def _nth(L: int, i: int) -> str:
    out = []
    for _ in range(L):
        i, r = divmod(i, len(ALPHABET))
        out.append(ALPHABET[r])
    return "".join(out)


# every short string is also tried as the inside of a complete construct ("start a comment or declaration")
SPECIAL_PARENTS = ["pre", "textarea", "listing", "title", "option", "template", "a", "svg", "xmp", "plaintext", "noscript", "iframe"]
WRAPS = [("<!--", "-->"), ("<!", ">"), ("<", ">"), ("&", ";"), ("<![CDATA[", "]]>")]


def body_short(case, note):
    import htmltools as h

    if "s" in case:
        s = case["s"]
        o = h.html_escape(s)
        check(fast_match_all(o, s), "html_escape output does not decode back / is not inert", s, o)
        o2 = h.Tag("div", s).get_html_string()
        check(o2.startswith("<div>") and o2.endswith("</div>") and fast_match_all(o2[5:-6], s), "single text child not inert", s, o2)
        o4 = h.Tag("p", s, "y").get_html_string()
        check(o4.startswith("<p>\n  ") and o4.endswith("y\n</p>") and fast_match_all(o4[6:-6], s), "text child with a sibling not inert", s, o4)
        for nm in [case["parent"]] if case.get("parent") else SPECIAL_PARENTS:
            for extra, post in (((), "</" + nm + ">"), (("y",), "y</" + nm + ">")):
                o5 = h.Tag(nm, s, *extra, _add_ws=False).get_html_string()
                pre5 = "<" + nm + ">"
                check(o5.startswith(pre5) and o5.endswith(post) and fast_match_all(o5[len(pre5) : len(o5) - len(post)], s), f"text child of <{nm}> not inert", s, o5)
        note(True)
        return
    esc = h.html_escape
    Tag = h.Tag
    n = nt = 0
    for i in range(case["lo"], case["hi"]):
        s = _nth(case["len"], i)
        n += 1
        o = esc(s)
        if META & set(s):
            nt += 1
            if not fast_match_all(o, s):
                raise Violation(f"html_escape({s!r}) = {o!r} is not the inert encoding", case={"s": s})
        elif o != s:
            raise Violation(f"html_escape({s!r}) = {o!r} changed a string without metacharacters", case={"s": s})
        o2 = Tag("div", s).get_html_string()
        if not (o2.startswith("<div>") and o2.endswith("</div>") and o2[5:-6] == o):
            if not (o2.startswith("<div>") and o2.endswith("</div>") and fast_match_all(o2[5:-6], s)):
                raise Violation(f"Tag('div', {s!r}) renders {o2!r}", case={"s": s})
        # the same string inside elements whose content parsers / pretty-printers treat specially
        nm = SPECIAL_PARENTS[i % len(SPECIAL_PARENTS)]
        for t5, pre5, post5 in ((Tag(nm, s, _add_ws=False), "<" + nm + ">", "</" + nm + ">"), (Tag(nm, s, "y", _add_ws=False), "<" + nm + ">", "y</" + nm + ">")):
            o5 = t5.get_html_string()
            n += 1
            if not (o5.startswith(pre5) and o5.endswith(post5) and fast_match_all(o5[len(pre5) : len(o5) - len(post5)], s)):
                raise Violation(f"Tag({nm!r}, {s!r}{', y' if post5.startswith('y') else ''}) renders {o5!r}", case={"s": s, "parent": nm})
        if case["len"] <= 3 or i % 7 == 0:
            for a, b in WRAPS:
                w = a + s + b
                n += 1
                nt += 1
                o3 = Tag("p", w).get_html_string()
                if not (o3.startswith("<p>") and o3.endswith("</p>") and fast_match_all(o3[3:-4], w)):
                    raise Violation(f"Tag('p', {w!r}) renders {o3!r}", case={"s": w})
                o4 = Tag("p", w, "y").get_html_string()
                if not (o4.startswith("<p>\n  ") and o4.endswith("y\n</p>") and fast_match_all(o4[6:-6], w)):
                    raise Violation(f"Tag('p', {w!r}, 'y') renders {o4!r}", case={"s": w})
    note.bulk(n, nt, sample={"len": case["len"], "lo": case["lo"], "first": _nth(case["len"], case["lo"])} if case["lo"] == 0 and case["len"] in (2, 4) else None)


# ------------------------------------------------------------------ slots (random trees)

PH = "ZQ~%d~QZ"
PH_RE = re.compile(r"ZQ~(\d+)~QZ")
ZH_RE = re.compile(r"ZH~(\d+)~HZ")
EOLS = ["\n", "", "\r\n", "  ", "\t"]


def long_text():
    """texts of 64-400 characters (length-triggered paths such as caches or fast paths)"""
    return st.builds(lambda s, k: (s or "<&>") * k, gen.any_text(), st.integers(8, 40)).map(lambda s: s[:400] if len(s) >= 64 else (s * 64)[:80])


class _IntSub(int):
    """an int subclass with its own text (IntEnum members, units, ...): 'numbers are rendered as their str() text'"""

    def __new__(cls, v, text):
        o = super().__new__(cls, v)
        o.text = text
        return o

    def __str__(self):
        return self.text

    __repr__ = __str__


class _FloatSub(float):
    def __new__(cls, v, text):
        o = super().__new__(cls, v)
        o.text = text
        return o

    def __str__(self):
        return self.text

    __repr__ = __str__


def slot_obj(v):
    """recipe value -> the child object handed to the library"""
    if isinstance(v, dict) and "strsub" in v:
        from hv.build import StrSub

        return StrSub(v["strsub"])
    if isinstance(v, dict):
        return (_IntSub if v["numsub"] == "int" else _FloatSub)(v["v"], v["text"])
    return v


def slot_text(v) -> str:
    if isinstance(v, dict) and "strsub" in v:
        return v["strsub"]
    if isinstance(v, dict):
        return v["text"]
    return v if isinstance(v, str) else str(v)


def slot_values():
    numsub = st.builds(lambda t, v, s: {"numsub": t, "v": v if t == "int" else float(v), "text": s}, st.sampled_from(["int", "float"]), st.integers(-5, 5), gen.any_text())
    strsub = gen.any_text().map(lambda t: {"strsub": t})  # an instance of a str subclass is a plain string too
    return st.one_of(gen.any_text(), gen.any_text(), gen.any_text(), gen.numbers(), long_text(), numsub, strsub, gen.edge_ws_text())


def tree_strategy():
    names = st.one_of(
        st.sampled_from([n for n in gen.catalogue_names() if n not in ("script", "style")]),
        st.sampled_from(gen.BLOCK_NAMES + gen.INLINE_NAMES),
        st.sampled_from(gen.RAWISH_NAMES),
        st.sampled_from([n for n in gen.SPECIAL_NAMES if n not in ("script", "style")]),
        gen.CUSTOM_NAME.filter(lambda n: n.lower() not in ("script", "style")),
    )
    slot = st.builds(lambda v: {"k": "slot", "v": v}, slot_values())
    fixed = st.sampled_from(
        [
            {"k": "html", "s": "<i>raw</i>"},
            {"k": "meta"},
            {"k": "repr", "s": "<u>r</u>"},
            {"k": "none"},
        ]
    )
    hows = st.sampled_from(["ctor", "ctor", "append", "extend", "insert", "list", "tuple", "taglist", "tfy", "tfylist", "samelist", "htmltwin"])

    def tag(children):
        return st.builds(
            lambda name, ws, kids, born: {"k": "tag", "name": name, "ws": ws, "kids": kids, "born": born},
            names,
            st.booleans(),
            st.lists(st.tuples(hows, st.integers(-3, 8), children).map(list), max_size=5),
            st.sampled_from([None, None, None, None, "script", "style"]),
        )

    leaf = st.one_of(slot, slot, slot, fixed)
    return st.recursive(tag(leaf), lambda inner: tag(st.one_of(leaf, inner)), max_leaves=12)


def case_strategy():
    return st.fixed_dictionaries(
        {
            "roots": st.lists(st.one_of(tree_strategy(), st.builds(lambda v: {"k": "slot", "v": v}, slot_values())), min_size=1, max_size=3),
            "indent": st.integers(0, 3),
            "eol": st.sampled_from(EOLS),
            "prior": st.sampled_from([False, False, "trusted", "failed", "both"]),
            "mode": st.sampled_from(["invisible", "invisible", "invisible", "json"]),
        }
    )


class _Builder:
    """Builds the tree either with placeholders or with the real slot values."""

    def __init__(self, real: bool) -> None:
        self.real = real
        self.n = 0
        self.slots: list = []
        self.hows: set = set()
        self.has_tfy = False
        self.mult: dict = {}  # slot index -> how many times it is expected in the output (same container object given twice)

    def node(self, r):
        import htmltools as h

        k = r["k"]
        if k == "slot":
            i = self.n
            self.n += 1
            self.slots.append(r["v"])
            if self.real:
                return slot_obj(r["v"])
            return PH % i
        if k == "html":
            return h.HTML(r["s"])
        if k == "meta":
            return h.MetadataNode()
        if k == "none":
            return None
        if k == "repr":
            from hv.build import Repr

            return Repr(r["s"])
        assert k == "tag"
        ops = []
        for how, idx, kid in r["kids"]:
            n0 = self.n
            o = self.node(kid)
            if how == "samelist":
                # one list object holding the child, given twice in the same call: the child is there twice
                for i in range(n0, self.n):
                    self.mult[i] = self.mult.get(i, 1) * 2
                cell = [o]
                o = [cell, cell]
                self.hows.add("samelist")
                how = "ctor" if not any(x[0] in ("append", "extend", "insert") for x in ops) else "append"
            elif how == "htmltwin":
                if kid["k"] == "slot":
                    # the very same characters marked as trusted markup right before the plain child, in the same call
                    twin = slot_text(kid["v"]) if self.real else "ZH~%d~HZ" % n0
                    o = [h.HTML(twin), o]
                    self.hows.add("htmltwin")
                how = "ctor" if not any(x[0] in ("append", "extend", "insert") for x in ops) else "append"
            ops.append((how, idx, o))
        # constructor-time children first (in order), then the incremental operations
        first_inc = next((i for i, o in enumerate(ops) if o[0] in ("append", "extend", "insert")), len(ops))
        ctor_args = []
        for how, idx, obj in ops[:first_inc]:
            ctor_args.append(self.wrap(how, obj))
        if r.get("born"):
            # constructed under the name of a raw-text element and renamed: what counts is the name at rendering time
            t = h.Tag(r["born"], *ctor_args, _add_ws=r["ws"])
            t.name = r["name"]
            self.hows.add("renamed")
        else:
            t = h.Tag(r["name"], *ctor_args, _add_ws=r["ws"])
        for how, idx, obj in ops[first_inc:]:
            self.hows.add(how)
            if how == "append":
                t.append(obj)
            elif how == "extend":
                t.extend([obj])
            elif how == "insert":
                t.insert(idx, obj)
            else:
                t.append(self.wrap(how, obj))
        return t

    def wrap(self, how, obj):
        import htmltools as h

        self.hows.add(how)
        if how == "list":
            return [obj]
        if how == "tuple":
            return (None, (obj,))
        if how == "taglist":
            return h.TagList(obj)
        if how == "tfy":
            self.has_tfy = True
            return _ObjTfy(obj)
        if how == "tfylist":
            self.has_tfy = True
            return _ObjTfy(h.TagList("", obj))
        return obj


class _BoomError(Exception):
    pass


class _Boom:
    def _repr_html_(self):
        raise _BoomError("user code failed while rendering")


class _ObjTfy:
    """Tagifiable whose expansion is an already built object (tagified on demand)."""

    def __init__(self, obj) -> None:
        self.obj = obj

    def tagify(self):
        import htmltools as h

        if isinstance(self.obj, (h.Tag, h.TagList)):
            return self.obj.tagify()
        if self.obj is None:
            return h.TagList()
        if isinstance(self.obj, (int, float)) and not isinstance(self.obj, bool):
            return h.TagList(self.obj)
        return self.obj


def _render(objs, case, has_tfy):
    import htmltools as h

    outs = []
    tl = h.TagList(*objs)
    if has_tfy:
        outs.append(("TagList.render()", tl.render()["html"]))
        if isinstance(objs[0], h.Tag):
            outs.append(("Tag.render()", objs[0].render()["html"]))
            outs.append(("Tag.tagify().get_html_string", objs[0].tagify().get_html_string(case["indent"], case["eol"])))
    else:
        outs.append(("TagList.get_html_string", tl.get_html_string(case["indent"], case["eol"])))
        if isinstance(objs[0], h.Tag):
            outs.append(("Tag.get_html_string", objs[0].get_html_string(case["indent"], case["eol"])))
            outs.append(("str(tag)", str(objs[0])))
    return outs


def body_slots(case, note):
    import htmltools as h

    # the global that decides how str() shows dependencies (these trees hold none): text children are data all the same
    saved = h.html_dependency_render_mode
    h.html_dependency_render_mode = case.get("mode", "invisible")
    try:
        _slots_body(case, note)
    finally:
        h.html_dependency_render_mode = saved


def _slots_body(case, note):
    b0 = _Builder(False)
    objs0 = [b0.node(r) for r in case["roots"]]
    b1 = _Builder(True)
    objs1 = [b1.node(r) for r in case["roots"]]
    prior = case.get("prior")
    if prior is True:
        prior = "trusted"
    if prior in ("trusted", "both"):
        # history: the very same characters were rendered earlier in this process as *trusted* markup and as an
        # attribute value; a plain child must be escaped all the same
        import htmltools as h

        for v in b1.slots:
            if isinstance(v, str):
                h.Tag("div", h.HTML(v), "x", title=v).get_html_string()
                h.TagList(h.HTML(v)).get_html_string()
                h.Tag("p", h.HTML(v)).get_html_string()
                h.Tag("script", v).get_html_string()
    if prior in ("failed", "both"):
        # history: earlier renderings in this process *raised* half way (the documented error for a child that was
        # never expanded; a self-rendering object whose _repr_html_ raises), inside raw-text and ordinary elements
        import htmltools as h

        from hv.history import failed_operations

        failed_operations(case["indent"], case["eol"], key=case["roots"])
        for nm in ("script", "style", "div"):
            for kids in (("x<y", Tfy({"k": "text", "s": "z"})), (h.Tag("p", "a<b", _Boom()), "c&d"), ("q", h.Tag("b", "r", Tfy({"k": "text", "s": "z"}), _add_ws=False))):
                for f in (lambda t: t.get_html_string(), lambda t: h.TagList("w", t).get_html_string(case["indent"], case["eol"])):
                    try:
                        f(h.Tag(nm, *kids))
                    except (RuntimeError, _BoomError):
                        pass
    outs0 = _render(objs0, case, b0.has_tfy)
    outs1 = _render(objs1, case, b1.has_tfy)
    slots = b0.slots
    for (label, r0), (_, r1) in zip(outs0, outs1):
        found = [int(m.group(1)) for m in PH_RE.finditer(r0)]
        if label.startswith("TagList"):
            check(sorted(found) == sorted(i for i in range(len(slots)) for _ in range(b0.mult.get(i, 1))), f"{label}: a text child was dropped or duplicated", found, r0)
        parts = PH_RE.split(r0)  # lit0, idx0, lit1, idx1, ..., litN
        pos = {0}
        lits = parts[0::2]
        idxs = [int(x) for x in parts[1::2]]
        for j, lit in enumerate(lits):
            lit = ZH_RE.sub(lambda m: slot_text(slots[int(m.group(1))]), lit)  # trusted twins: verbatim
            pos = {p + len(lit) for p in pos if r1.startswith(lit, p)}
            check(bool(pos), f"{label}: output structure differs from the placeholder template near segment {j}", lit, r1, r0)
            if j < len(idxs):
                v = slots[idxs[j]]
                text = slot_text(v)
                nxt = set()
                for p in pos:
                    nxt |= E.match(r1, p, text, META, META)
                if not nxt:
                    p = min(pos)
                    check(False, f"{label}: text child {text!r} is not emitted as inert data: " + E.explain(r1, p, text, META, META), r1)
                pos = nxt
        check(len(r1) in pos, f"{label}: trailing output differs from the template", r1, r0)
    meta_slots = [v for v in slots if META & set(slot_text(v))]
    only_child = len(case["roots"]) == 1 and case["roots"][0]["k"] == "tag" and len(case["roots"][0]["kids"]) == 1
    classes = ["how:" + x for x in sorted(b0.hows)]
    if any(not isinstance(v, str) and not (isinstance(v, dict) and "strsub" in v) for v in slots):
        classes.append("number")
    if any(isinstance(v, dict) and "text" in v and META & set(v["text"]) for v in slots):
        classes.append("number-subclass-with-metachar-text")
    if any(isinstance(v, dict) and "strsub" in v and META & set(v["strsub"]) for v in slots):
        classes.append("str-subclass-with-metachar")
    if any(isinstance(v, str) and len(v) >= 64 for v in slots):
        classes.append("long-text")
    if prior in ("trusted", "both"):
        classes.append("prior-trusted-render")
    if prior in ("failed", "both"):
        classes.append("prior-failed-render")
    if case.get("mode") == "json":
        classes.append("json-render-mode")
    note(bool(meta_slots) and not only_child, *classes)


def selftest():
    E.selftest()
    assert fast_match_all("a&amp;&lt;b", "a&<b") and not fast_match_all("a&b", "a&b") and not fast_match_all("a&amp;amp;b", "a&b")
    assert len(ALPHABET) == 13 and sum(13**k for k in range(5)) == 30941


RULE = (
    "codepoints: all 1,112,064 Unicode scalar values (every one counted); short: every string of length <=4 (quick) / <=6 "
    "(thorough) over the 13-symbol alphabet, non-trivial = contains & < or >; slots: random trees whose text/number slots are "
    "added by constructor, nested list/tuple/TagList, append, extend, insert or a tagify expansion; non-trivial = a slot text "
    "contains & < or > and is not the only child of a single root; distinct by sha1 of the recipe"
)

CLAUSES = [
    Clause("codepoints", body_codepoints, source="enum", enum=enum_codepoints, shards_quick=8, shards_thorough=16, rule="every scalar value"),
    Clause("short", body_short, source="enum", enum=enum_short, shards_quick=4, shards_thorough=16, rule="contains a metacharacter"),
    Clause(
        "slots",
        body_slots,
        source="given",
        strategy=case_strategy,
        quick=1200,
        thorough=20000,
        shards_quick=4,
        required=("how:append", "how:extend", "how:insert", "how:list", "how:tfy", "how:ctor", "number", "long-text", "prior-trusted-render", "prior-failed-render", "number-subclass-with-metachar-text", "str-subclass-with-metachar", "how:renamed", "json-render-mode", "how:samelist", "how:htmltwin"),
        rule="metachar slot not an only child",
        fuzz=60000,
    ),
]
