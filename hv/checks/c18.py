"""C18 - output is deterministic across processes and independent of history.

processes : a Hypothesis-generated battery rendered by child interpreters started with
            different PYTHONHASHSEED values, each in a different order and with repeats;
            digests must agree case by case                                   (configurations)
names     : head_content names are a function of the rendered content only   (Hypothesis pairs)
"""

from __future__ import annotations

import json
import os
import shutil
import subprocess
import sys
import tempfile

from hypothesis import strategies as st

from hv import core, gen
from hv.build import build
from hv.core import Clause, Violation, check

ASSUMPTIONS = [
    "a finite sample of hash seeds (4 quick / 32 thorough): a nondeterminism that needs one specific seed can be missed",
    "the battery is generated once per run from VERIF_SEED; every child renders the same battery in its own order, a third of the cases twice",
]

# characters that compatibility / canonical normalisation or case folding would identify with each other
CONFUSABLE = "2\u00b2fi\ufb01A\uff21\u00e9e\u0301\u212b\u00c5\u00e5aK\u212a k"

NAMES = ["jquery", "bootstrap", "d3", "leaflet", "react", "vue", "katex", "plotly", "ace", "zeta", "alpha", "mid"]


def dep():
    return st.builds(
        lambda n, v, extra: dict({"k": "dep", "name": n, "version": v}, **extra),
        st.sampled_from(NAMES),
        st.sampled_from(["1.0", "1.2", "1.10", "2.0.1", "0.9"]),
        st.sampled_from(
            [
                {},
                {"source": {"href": "https://cdn/x"}, "script": [{"src": "a.js"}, {"src": "b.js", "defer": ""}], "stylesheet": [{"href": "s.css", "media": "all"}]},
                {"meta": [{"name": "m", "content": "c"}], "head": "<link rel=x>"},
                {"source": {"package": "htmltools", "subdir": "libtest/testdep"}, "script": {"src": "testdep.js"}, "all_files": True},
                # no source at all, file names that need percent-encoding
                {"script": [{"src": "my script%.js"}, {"src": "\u00e9 1.js"}], "stylesheet": [{"href": "a b.css"}]},
                {"source": {"href": ""}, "script": {"src": "sp ace.js"}},
            ]
        ),
    )


def payload():
    return st.lists(
        st.one_of(
            st.builds(lambda s: {"k": "text", "s": s}, st.one_of(st.sampled_from(["a", "b", "ab", "ba", "abc", "", "x<y"]), st.text(alphabet="ab<", max_size=4), st.text(alphabet=CONFUSABLE, min_size=1, max_size=3))),
            st.sampled_from([{"k": "html", "s": "<meta name=a>"}, {"k": "tag", "name": "title", "ws": True, "attrs": [], "kids": [{"k": "text", "s": "T"}]}]),
            st.builds(lambda nm, t, av: {"k": "tag", "name": nm, "ws": True, "attrs": [["title", av]] if av else [], "kids": [{"k": "text", "s": t}]}, st.sampled_from(["noscript", "title", "style"]), st.sampled_from(["x<y", "a&b", "<img src=x>", "plain"]), st.sampled_from(["", "", "q<r"])),
        ),
        min_size=1,
        max_size=3,
    )


def big_payload():
    """payloads whose rendering is longer than any plausible size threshold (4 KiB .. 70 KiB)"""
    return st.builds(lambda s, n: [{"k": "text", "s": (s or "x") * n}], st.text(alphabet="ab<", min_size=1, max_size=3), st.sampled_from([1500, 5000, 24000]))


def battery_case():
    headc = st.builds(lambda p: {"k": "headc", "kids": p}, payload())
    text = st.builds(lambda s: {"k": "text", "s": s}, gen.safe_text(0, 4))
    leaf = gen.opaque(st.one_of(dep(), dep(), dep(), headc, text))
    attrs = st.lists(
        st.one_of(
            st.tuples(st.sampled_from(["id", "data-a", "data-b", "title", "lang", "role"]), gen.safe_text(0, 3)).map(list),
            st.tuples(st.just("class"), st.sampled_from(["a b c d e", "e d c b a", "x a y b z", "solo"])).map(list),
            st.tuples(st.just("style"), st.sampled_from(["k:v;", "a:b; c:d;"])).map(list),
        ),
        max_size=6,
        unique_by=lambda p: p[0],
    )

    def tag(ch):
        return st.builds(lambda n, ws, a, k: {"k": "tag", "name": n, "ws": ws, "attrs": a, "kids": k}, st.sampled_from(["div", "span", "p", "ul"]), st.booleans(), attrs, st.lists(ch, min_size=1, max_size=5))

    n = st.one_of(leaf, tag(leaf))
    n = st.one_of(leaf, tag(n), tag(n))
    return st.fixed_dictionaries(
        {
            "roots": st.lists(st.one_of(tag(n), tag(n), leaf), min_size=1, max_size=4),
            "kw": st.lists(st.tuples(st.sampled_from(["lang", "class_", "data_z"]), gen.safe_text(1, 3)).map(list), max_size=2, unique_by=lambda p: p[0]),
            "payloads": st.lists(st.one_of(payload(), payload(), big_payload()), max_size=2),
            "html_root": st.booleans(),
            "fail_first": st.sampled_from([None, None, "untagified", "repr-raises"]),
            "label": st.sampled_from(["x<y", "a", "", "&amp;"]),
            "ops": st.lists(
                st.one_of(
                    st.tuples(st.just("add_class"), st.integers(0, 5), st.sampled_from(["a", "b", "c d", "e"]), st.booleans()).map(list),
                    st.tuples(st.just("remove_class"), st.integers(0, 5), st.sampled_from(["a", "b", "a b", "c d e", " e "])).map(list),
                    st.tuples(st.just("add_style"), st.integers(0, 5), st.sampled_from(["x:y;", "color:red;"]), st.booleans()).map(list),
                    st.tuples(st.just("update"), st.integers(0, 5), st.lists(st.tuples(st.sampled_from(["class", "class_", "data_k", "id"]), st.sampled_from(["v1 v2 v3", "q", "z y x w"])).map(list), max_size=3)).map(list),
                    st.tuples(st.just("append"), st.integers(0, 5), gen.safe_text(0, 3)).map(list),
                ),
                max_size=4,
            ),
            "css": st.lists(st.tuples(st.sampled_from(["font_size", "backgroundColor", "margin_top", "zIndex", "color"]), st.sampled_from(["1px", "red", 3, None, 1, 1.0, 0, 0.0, 2, 2.0])).map(list), max_size=4, unique_by=lambda p: p[0]),
        }
    )


def generate_battery(n: int, seed: int) -> list:
    import hypothesis
    from hypothesis import HealthCheck, Phase, given, settings

    out: list = []

    @hypothesis.seed(seed)
    @settings(max_examples=n, database=None, deadline=None, suppress_health_check=list(HealthCheck), phases=[Phase.generate])
    @given(battery_case())
    def collect(c):
        out.append(c)

    collect()
    # distinct, and prefer the larger cases
    seen, uniq = set(), []
    for c in out:
        k = core.canon(c)
        if k not in seen:
            seen.add(k)
            uniq.append(c)
    return uniq


def _dep_names(nodes, acc):
    for n in nodes:
        if n["k"] == "dep":
            acc.add(n["name"])
        elif n["k"] == "headc":
            acc.add("headc:" + core.canon(n["kids"]))
        elif n["k"] == "tag":
            _dep_names(n["kids"], acc)
    return acc


def run_children(battery, seeds, tag):
    tmp = tempfile.mkdtemp(prefix="hv-c18-")
    try:
        path = os.path.join(tmp, "battery.json")
        with open(path, "w") as f:
            json.dump(battery, f)
        procs = []
        env0 = dict(os.environ)
        for i, hs in enumerate(seeds):
            env = dict(env0, PYTHONHASHSEED=str(hs))
            p = subprocess.Popen([sys.executable, "-m", "hv.c18_child", path, "%s-%d" % (tag, i)], cwd=core.VERIF_DIR, env=env, stdout=subprocess.PIPE, stderr=subprocess.PIPE, text=True)
            procs.append((hs, p))
        outs = []
        for hs, p in procs:
            so, se = p.communicate(timeout=1200)
            if p.returncode != 0:
                raise core.HarnessError(f"C18 child (PYTHONHASHSEED={hs}) failed: {se[-1500:]}")
            outs.append((hs, json.loads(so)))
        return outs
    finally:
        shutil.rmtree(tmp, ignore_errors=True)


def body_replay(case, note):
    """replay of a saved process-level failure: one battery case under the recorded hash seeds"""
    seeds = case.get("hashseeds") or [case.get("hashseed", 0), 0, 1, 2, 3, 4, 5, 6]
    outs = run_children([case["battery_case"]] * 3, (list(seeds) + [7, 11])[:4], "replay")
    ref = outs[0][1]
    for hs, o in outs:
        r0 = o["results"]["0"]
        check(r0.get("doc") == r0.get("doc_again") and r0.get("page") == r0.get("page_again"), "rendering the same document object twice in one process gave different markup")
        check(r0.get("arg_history_ok") is not False, "a document object rendered with other arguments before answers differently from a fresh one")
        check(r0.get("after_failed_ok") is not False, "objects whose earlier rendering raised half way render differently from freshly built equal objects once the cause is removed")
        check(not o["mismatches"], f"same case rendered twice in one process (PYTHONHASHSEED={hs}) gave different results")
        check(o["results"]["0"] == ref["results"]["0"], f"case differs between PYTHONHASHSEED={outs[0][0]} and {hs}", ref["results"]["0"], o["results"]["0"])
    note(True)


def run_processes(ctx):
    tier = ctx.tier
    n_cases = 60 if tier == "quick" else 300
    n_children = 4 if tier == "quick" else 32
    battery = generate_battery(n_cases, core.derive(ctx.seed, "C18", "battery"))
    seeds = [0, 1, 2] + [core.derive(ctx.seed, "C18", "hs", i) % 4294967295 for i in range(n_children - 3)]
    outs = run_children(battery, seeds, str(ctx.seed))
    ref_hs, ref = outs[0]
    for hs, o in outs:
        for i in range(len(battery)):
            r = o["results"].get(str(i))
            if r is None:
                continue
            if r.get("after_failed_ok") is False:
                ctx.extra["case"] = {"battery_case": battery[i], "hashseed": hs, "what": "objects whose earlier rendering raised render differently afterwards"}
                raise Violation(f"case {i}: objects whose earlier rendering raised half way render differently from freshly built equal objects once the cause is removed")
            if r.get("arg_history_ok") is False:
                ctx.extra["case"] = {"battery_case": battery[i], "hashseed": hs, "what": "a document object rendered with other arguments before answers differently from a fresh one"}
                raise Violation(f"case {i}: a document object that was rendered with other lib_prefix / include_version before renders differently from a fresh one")
            for a_, b_ in (("doc", "doc_again"), ("page", "page_again")):
                if a_ in r and r[a_] != r.get(b_):
                    ctx.extra["case"] = {"battery_case": battery[i], "hashseed": hs, "what": f"{a_}: the same document object rendered twice"}
                    raise Violation(f"case {i}: rendering the same document object twice in one process gave different markup ({a_})")
        if o["mismatches"]:
            i = o["mismatches"][0]
            ctx.extra["case"] = {"battery_case": battery[i], "hashseed": hs, "what": "same case rendered twice in one process"}
            raise Violation(f"case {i} rendered twice in one process (PYTHONHASHSEED={hs}) gave different results")
    for hs, o in outs[1:]:
        for i in range(len(battery)):
            a, b = ref["results"].get(str(i)), o["results"].get(str(i))
            if a is None or b is None:
                continue
            if a != b:
                diff = [k for k in a if a[k] != b.get(k)]
                ctx.extra["case"] = {"battery_case": battery[i], "hashseeds": [ref_hs, hs], "differs_in": diff, "a": {k: a[k] for k in diff}, "b": {k: b[k] for k in diff}}
                raise Violation(f"case {i} differs between PYTHONHASHSEED={ref_hs} and {hs} in {diff}")
    nontrivial = 0
    for c in battery:
        names = _dep_names(c["roots"], set())
        if len([x for x in names if not x.startswith("headc:")]) >= 3 or len([x for x in names if x.startswith("headc:")]) >= 2:
            nontrivial += 1
    ctx.rec.evaluations += len(battery) * len(outs)
    ctx.rec.bulk_nontrivial += nontrivial
    ctx.rec.classes["children"] += len(outs)
    ctx.rec.classes["battery_cases"] += len(battery)
    ctx.rec.classes["cases-with-earlier-failed-rendering"] += sum(1 for c in battery if c.get("fail_first")) * len(outs)
    ctx.rec.classes["renderings_per_child"] += len(battery) + len(battery[::3])
    ctx.rec.samples = [(0, {"battery_case": battery[0], "hashseeds": seeds[:4]})]
    ctx.extra["hash_seeds"] = seeds


# ---------------------------------------------------------------- head_content names


SWAP = {"2": "\u00b2", "\u00b2": "2", "A": "\uff21", "\uff21": "A", "\u00e9": "e\u0301", "\u212b": "\u00c5", "\u00c5": "\u212b", "K": "\u212a", "\u212a": "K", "\ufb01": "fi", "a": "\uff41", "b": "B"}


def confuse(p):
    """q = p with the first swappable character replaced by a compatibility-equivalent / case variant"""
    out, done = [], False
    for n in p:
        if not done and n["k"] == "text":
            for i, c in enumerate(n["s"]):
                if c in SWAP:
                    n = dict(n, s=n["s"][:i] + SWAP[c] + n["s"][i + 1 :])
                    done = True
                    break
        out.append(n)
    return out


def twin(p, mode):
    """q = p with its first text leaf turned into trusted markup: 'raw' keeps the characters (renders differently when
    they contain & < >), 'escaped' uses the escaped characters (renders identically)"""
    out, done = [], False
    for n in p:
        if not done and n["k"] == "text":
            s = n["s"]
            if mode == "escaped":
                s = s.replace("&", "&amp;").replace("<", "&lt;").replace(">", "&gt;")
            n = {"k": "html", "s": s}
            done = True
        elif not done and n["k"] == "tag" and n["name"] != "style" and any(k["k"] == "text" for k in n["kids"]):
            # the text leaf sits inside an element: the two payloads differ only in str vs HTML() one level down
            n = dict(n, kids=twin(n["kids"], mode))
            done = True
        out.append(n)
    return out


_UNIQUE = [0]


def names_case():
    return st.fixed_dictionaries({"p": st.one_of(payload(), payload(), big_payload()), "q": payload(), "same": st.booleans(), "confuse": st.sampled_from([None, None, "swap", "swap", "raw", "escaped", "plus-dep", "plus-meta"]), "mode": st.sampled_from(["invisible", "invisible", "json"])})


INVISIBLE = {
    "plus-dep": [{"k": "dep", "name": "inner", "version": "1.0", "source": {"href": "https://cdn/i"}, "script": [{"src": "i.js"}], "head": "<inner-head>"}],
    "plus-meta": [{"k": "meta"}, {"k": "none"}],
}


def body_names(case, note):
    import htmltools as h

    # names are a function of the rendered content only - not of the global that decides how str() shows dependencies
    saved = h.html_dependency_render_mode
    h.html_dependency_render_mode = case.get("mode", "invisible")
    try:
        _names_body(case, note)
    finally:
        h.html_dependency_render_mode = saved


def _names_body(case, note):
    import htmltools as h

    p, q = case["p"], case["q"]
    if case["same"]:
        q = p
    elif case.get("confuse") == "swap":
        q = confuse(p)
    elif case.get("confuse") in ("raw", "escaped"):
        q = twin(p, case["confuse"])
    elif case.get("confuse") in INVISIBLE:
        # q = p plus nodes that leave no trace in the rendering (a dependency / bare metadata node inside the payload)
        q = p[:1] + INVISIBLE[case["confuse"]] + p[1:]
    rp = h.TagList(*[build(x) for x in p]).get_html_string()
    rq = h.TagList(*[build(x) for x in q]).get_html_string()
    hp, hq = h.head_content(*[build(x) for x in p]), h.head_content(*[build(x) for x in q])
    check((hp.name == hq.name) == (rp == rq), "head_content names are equal iff the rendered payloads are equal - violated", (rp, hp.name), (rq, hq.name))
    check(hp.name == h.head_content(*[build(x) for x in p]).name, "head_content name is not a function of the content")
    other = "json" if h.html_dependency_render_mode == "invisible" else "invisible"
    cur = h.html_dependency_render_mode
    h.html_dependency_render_mode = other
    try:
        n_other = h.head_content(*[build(x) for x in q]).name
    finally:
        h.html_dependency_render_mode = cur
    check(n_other == hq.name, "head_content name of the same content depends on html_dependency_render_mode at creation time", hq.name, n_other)
    # content never seen before in this process: the payload objects of its first head_content() are changed afterwards;
    # a later, independent head_content() of the same content must not be affected
    _UNIQUE[0] += 1
    fresh = p + [{"k": "tag", "name": "meta", "ws": True, "attrs": [["name", "u%d-%d" % (os.getpid(), _UNIQUE[0])]], "kids": [{"k": "text", "s": "k"}]}]
    objs_f = [build(x) for x in fresh]
    r_fresh = h.TagList(*[build(x) for x in fresh]).get_html_string()
    first = h.head_content(*objs_f)
    for o in objs_f:
        if isinstance(o, h.Tag):
            o.append("!changed-later!")
    again_f = h.head_content(*[build(x) for x in fresh])
    check(again_f.head.get_html_string() == r_fresh, "an independent head_content() of the same content is affected by an earlier payload that was changed afterwards", r_fresh, again_f.head.get_html_string())
    check(first.name == again_f.name, "head_content name changed although the content at creation time was the same")
    # the payload handed over as one TagList object that the caller goes on using
    tl = h.TagList(*[build(x) for x in fresh])
    from_list = h.head_content(tl)
    tl.append("!appended-to-the-callers-list-later!")
    tl.insert(0, h.Tag("b", "!inserted-later!"))
    check(from_list.head.get_html_string() == r_fresh, "head_content(<TagList>) changes when the caller's list is changed afterwards", r_fresh, from_list.head.get_html_string())
    check(from_list.name == again_f.name, "head_content(<TagList>) is named differently from head_content(*items) of the same content", again_f.name, from_list.name)
    d2 = h.HTMLDocument(from_list, h.head_content(tl), again_f).render()["dependencies"]
    check(len(d2) == 2 and d2[0].head.get_html_string() == r_fresh, "a document with head_content of a list, of the list after it grew, and of the original content again does not hold exactly two head contents", [x.name for x in d2])
    inner = build(INVISIBLE["plus-dep"][0])
    doc = h.HTMLDocument(h.Tag("div", hp, h.Tag("span", hq)), h.head_content(*[build(x) for x in p]), inner).render()
    doc["dependencies"] = [d for d in doc["dependencies"] if d.name != "inner"]
    check(doc["html"].count("https://cdn/i/i.js") == 1, "a dependency that is also carried inside a head_content payload is written more or less than once", doc["html"].count("https://cdn/i/i.js"))
    if case.get("confuse") == "plus-dep" and not case["same"]:
        # the payload that carries the inner dependency comes first, the same dependency is also given at top level
        d3 = h.HTMLDocument(h.head_content(*[build(x) for x in q]), h.Tag("p", build(INVISIBLE["plus-dep"][0]))).render()["html"]
        check(d3.count("https://cdn/i/i.js") == 1, "a dependency carried inside the first head_content payload and also given in the body is not written exactly once", d3.count("https://cdn/i/i.js"))
    head_html = doc["html"][doc["html"].index("<head>") : doc["html"].rindex("</head>")]
    for rr in (rp, rq):
        if rr and "\n" not in rr:
            check(rr in head_html, "the rendering of a head_content payload is missing from the document's <head>", rr, head_html)
    heads = [d.head.get_html_string() for d in doc["dependencies"]]
    if rp == rq:
        check(heads == [rp], "equal head content is not included exactly once", heads)
    else:
        check(heads == [rp, rq], "different head contents were merged or reordered", [rp, rq], heads)
    differently_built = rp == rq and core.canon(p) != core.canon(q)
    import unicodedata

    confus = rp != rq and (unicodedata.normalize("NFKC", rp).casefold() == unicodedata.normalize("NFKC", rq).casefold())
    close = rp != rq and (len(rp) == len(rq) or sorted(rp) == sorted(rq) or confus)
    note(differently_built or close, "equal-content-built-differently" if differently_built else "", "anagram-or-same-length" if close else "", "identical" if core.canon(p) == core.canon(q) else "", "unicode-confusable" if confus else "", "text-vs-markup-twin:" + case["confuse"] if case.get("confuse") in ("raw", "escaped") and not case["same"] else "", "large-payload" if len(rp) > 4096 else "",
         "payload-plus-invisible-node:" + case["confuse"] if case.get("confuse") in INVISIBLE and not case["same"] else "", "json-mode" if case.get("mode") == "json" else "")


RULE = (
    "processes: battery of generated trees/documents (many distinctly named dependencies, head_content payloads, up to 6 attributes per tag, JSON-mode "
    "strings) rendered by child interpreters under different PYTHONHASHSEED values, each in its own order with a third of the cases repeated; "
    "non-trivial = a case with >=3 distinct dependency names or >=2 head_content items (observed under every hash seed). names: pairs of payloads; "
    "non-trivial = equal rendered content built differently, or different content of equal length / anagrams"
)

CLAUSES = [
    Clause("processes", body_replay, source="custom", custom=run_processes, rule="see RULE"),
    Clause("names", body_names, strategy=names_case, quick=1500, thorough=20000, shards_quick=2, required=("equal-content-built-differently", "anagram-or-same-length", "unicode-confusable", "text-vs-markup-twin:raw", "text-vs-markup-twin:escaped", "large-payload", "payload-plus-invisible-node:plus-dep", "payload-plus-invisible-node:plus-meta", "json-mode"), rule="see RULE"),
]
