"""C17 - Tag context manager restores the display hook and collects children in order.

Programs (nested with-blocks, displays, raises, try/except, re-entry of an active tag)
are interpreted on real tags next to a model; one program is one Hypothesis value.
"""

from __future__ import annotations

import sys

from hypothesis import strategies as st

from hv import gen
from hv.build import Repr, Tfy
from hv.core import Clause, HarnessError, Violation, check

ASSUMPTIONS = [
    "'display(v)' is a direct call of sys.displayhook(v), which is what the interactive interpreter does for an expression statement",
    "single-threaded: the statement is about nesting and exceptions, not threads",
    "re-entering a tag whose block has already ended is not generated (the statement is silent about it)",
]

BAD = ["set", "dict", "object", "bytes", "complex", "widget"]


class Boom(Exception):
    pass


class BoomBase(BaseException):
    """not an Exception subclass (what KeyboardInterrupt, SystemExit and GeneratorExit are)"""


BOOMS = (Boom, BoomBase)


def values():
    return gen.opaque(
        st.one_of(
            st.builds(lambda s: ["str", s], st.one_of(gen.safe_text(0, 3), st.sampled_from(["", "<b>", "a&b"]))),
            st.builds(lambda v: ["num", v], st.one_of(st.integers(-3, 30), st.sampled_from([0, 1.5, -0.0]))),
            st.sampled_from([["none"], ["ellipsis"], ["repr", "<u>r</u>"], ["html", "<i>h</i>"], ["tag", "span"], ["tag", "div"], ["tfy"], ["dep"], ["widget", "<w>1</w>"], ["meta"],
                             ["repr", ""], ["html", ""], ["widget", ""], ["repr", " "], ["html", "0"], ["tag", "br"], ["num", 0.0],
                             ["richstr", "hello"], ["richstr", ""], ["richnum", 3.5], ["richnum", 7]]),
            st.builds(lambda a, b: ["list", a, b], st.sampled_from(["list", "tuple", "taglist"]), st.lists(st.sampled_from([["str", "x"], ["num", 2], ["none"], ["tag", "b"], ["html", "<q>"]]), max_size=3)),
        )
    )


def block(depth):
    disp = st.builds(lambda v: ["disp", v], values())
    bad = st.builds(lambda t, c, nested: ["bad", t, c, nested], st.sampled_from(BAD), st.booleans(), st.booleans())
    simple = [disp, disp, disp, bad, st.just(["raise"]), st.just(["raise", "base"]), st.builds(lambda k: ["reenter", k], st.integers(0, 5)), st.just(["again"]), st.just(["again"])]
    if depth == 0:
        return st.lists(st.one_of(*simple), max_size=4)
    inner = block(depth - 1)
    wc = st.builds(lambda b, plain: ["withcopy", b, plain], inner, st.booleans())
    w = st.builds(lambda name, ws, b: ["with", name, ws, b], st.sampled_from(["div", "span", "ul", "p", "div", "span", "br", "img", "input", "hr", "meta", "script", "style", "body", "head", "html", "x-widget", "pre"]), st.booleans(), inner)
    t = st.builds(lambda b: ["try", b], inner)
    # opaque(): keep the branch weights (a flattened one_of would make with-blocks rare)
    stmt = st.one_of(gen.opaque(st.one_of(*simple)), w, w, w, gen.opaque(t), gen.opaque(wc))
    return st.lists(stmt, min_size=1, max_size=5)


def case_strategy():
    return st.fixed_dictionaries({"prog": block(3), "default_hook": st.sampled_from([False, False, False, True]), "falsy_hook": st.sampled_from([False, False, True]), "wrapped_hook": st.sampled_from([False, False, True]), "hook_returns": st.sampled_from([False, False, True])})


def build_value(v):
    import htmltools as h

    k = v[0]
    if k == "str":
        return v[1]
    if k == "num":
        return v[1]
    if k == "none":
        return None
    if k == "ellipsis":
        return ...
    if k == "repr":
        return Repr(v[1])
    if k == "html":
        return h.HTML(v[1])
    if k == "tag":
        return h.Tag(v[1], "inner", _add_ws=(v[1] == "div"))
    if k == "tfy":
        return Tfy({"k": "text", "s": "t"})
    if k == "dep":
        return h.HTMLDependency("d", "1.0")
    if k == "meta":
        return h.MetadataNode()
    if k == "widget":
        return _widget_class(True)(v[1])
    if k == "richstr":
        return _RichText(v[1])
    if k == "richnum":
        return (_RichInt if isinstance(v[1], int) else _RichFloat)(v[1])
    if k == "list":
        items = [build_value(x) for x in v[2]]
        if v[1] == "tuple":
            return tuple(items)
        if v[1] == "taglist":
            return h.TagList(*items)
        return items
    raise ValueError(v)


class _RichText(str):
    """a str subclass that renders itself"""

    def _repr_html_(self):
        return "<em>" + str(self) + "</em>"


class _RichInt(int):
    def _repr_html_(self):
        return "<b>%d</b>" % int(self)


class _RichFloat(float):
    def _repr_html_(self):
        return "<b>%.2f</b>" % float(self)


def _widget_class(renderable: bool):
    """Two *different* classes with the same module and qualified name (a class redefined in a notebook cell):
    one is self-rendering, the other is an unsupported object."""
    if renderable:
        cls = type("Widget", (), {"__init__": lambda self, s: setattr(self, "s", s), "_repr_html_": lambda self: self.s})
    else:
        cls = type("Widget", (), {})
    cls.__module__ = "hv.checks.c17"
    cls.__qualname__ = "Widget"
    return cls


def mk_bad(t, nested):
    if t == "widget":
        x = _widget_class(False)()
    else:
        x = {"set": {1}, "dict": {"a": 1}, "object": object(), "bytes": b"x", "complex": 2j}[t]
    return ["ok", x] if nested else x


def model_nodes(obj, out):
    """what displaying obj inside a block appends to the block's tag (documented child rules)"""
    import htmltools as h

    if isinstance(obj, (h.Tag, h.TagList)) or (hasattr(obj, "tagify") and not isinstance(obj, (list, tuple))):
        _flat([obj], out)
    elif isinstance(obj, h.MetadataNode):
        out.append(("obj", obj))  # metadata nodes / dependencies are kept as they are
    elif hasattr(obj, "_repr_html_"):
        out.append(("html", obj._repr_html_()))
    elif obj is None or obj is ...:
        pass
    else:
        _flat([obj], out)
    return out


def _flat(items, out):
    import htmltools as h

    for x in items:
        if isinstance(x, (list, tuple, h.TagList)):
            _flat(list(x), out)
        elif x is None:
            continue
        elif isinstance(x, (int, float)) and not isinstance(x, bool):
            out.append(("text", str(x)))
        elif type(x) is str:
            out.append(("text", x))
        else:
            out.append(("obj", x))


def compare_children(tag, model, label):
    import htmltools as h

    kids = list(tag.children)
    check(len(kids) == len(model), f"{label}: tag has {len(kids)} children, the model {len(model)}", [type(k).__name__ for k in kids], [m if m[0] != "obj" else ("obj", type(m[1]).__name__) for m in model])
    for i, (k, m) in enumerate(zip(kids, model)):
        if m[0] == "any":
            continue  # a copied nested object (copies are new objects)
        if m[0] == "text":
            check(type(k) is str and k == m[1], f"{label}: child {i} should be text {m[1]!r}", type(k).__name__)
        elif m[0] == "html":
            check(isinstance(k, h.HTML) and k.data == m[1], f"{label}: child {i} should be HTML({m[1]!r}) from _repr_html_", type(k).__name__)
        else:
            check(k is m[1], f"{label}: child {i} is not the displayed object", type(k).__name__)


class Interp:
    def __init__(self) -> None:
        self.base_seen: list = []
        self.base_model: list = []
        self.active: list = []  # [{"tag":..., "kids": [...]}]
        self.finished: list = []  # blocks that have ended, with the model of their children at that time
        self.stats = {"max_depth": 0, "exc_crossed": 0, "blocks": 0, "reentry": 0, "bad": 0, "raised_in_block": 0}

    returns = None

    def base(self, v):
        self.base_seen.append(v)
        return self.returns  # a front end's hook may hand back a display handle

    def _block(self, tag, m, body_stmts, label, may_refuse):
        h0 = sys.displayhook
        orig = m.get("orig")
        orig_before = list(orig["tag"].children) if orig else None
        self.stats["blocks"] += 1
        raised_inside = False
        entered = False
        try:
            try:
                cm = tag.__enter__()
                entered = True
            except RuntimeError:
                check(may_refuse, "entering a fresh tag raised RuntimeError")
                check(sys.displayhook is h0, "a refused entry changed the display hook")
                self.stats["blocks"] -= 1
                return
            exc = (None, None, None)
            try:
                check(sys.displayhook is not h0, "entering a block did not install a hook")
                self.active.append(m)
                self.stats["max_depth"] = max(self.stats["max_depth"], len(self.active))
                try:
                    self.run(body_stmts)
                except BOOMS as e:
                    if isinstance(e, BoomBase):
                        self.stats["base_exc_crossed"] = 1
                    raised_inside = True
                    self.stats["exc_crossed"] += 1
                    exc = (type(e), e, e.__traceback__)
                    raise
                finally:
                    self.active.pop()
            finally:
                swallowed = tag.__exit__(*exc)
                check(not (raised_inside and swallowed), "an exception raised inside a with-block did not propagate out of the block")
        finally:
            if entered:
                check(sys.displayhook is h0, "after the block exits sys.displayhook is not the hook that was installed when it was entered" + (" (exception raised inside)" if raised_inside else ""))
                self.deliver(tag)
                if self.active:
                    self.active[-1]["last"] = tag
                compare_children(tag, m["kids"], "block of " + label)
                if orig is not None:
                    now = list(orig["tag"].children)
                    check(len(now) == len(orig_before) and all(a is b for a, b in zip(now, orig_before)), "values displayed in the block of a copy were appended to the tag it was copied from", len(orig_before), len(now))
                if self.active:
                    compare_children(self.active[-1]["tag"], self.active[-1]["kids"], "enclosing block")
                self.finished.append({"tag": tag, "kids": list(m["kids"])})

    def deliver(self, obj):
        """model of handing obj to the currently installed hook"""
        if self.active:
            model_nodes(obj, self.active[-1]["kids"])
        else:
            self.base_model.append(obj)

    def run(self, blk):
        import htmltools as h

        for s in blk:
            k = s[0]
            if k == "disp":
                v = build_value(s[1])
                sys.displayhook(v)
                self.deliver(v)
                if self.active:
                    self.active[-1]["last"] = v
            elif k == "again":
                # the very same object displayed once more in the same block (or the block's last nested tag)
                if not self.active or self.active[-1].get("last") is None:
                    continue
                v = self.active[-1]["last"]
                sys.displayhook(v)
                self.deliver(v)
                self.stats["again"] = self.stats.get("again", 0) + 1
            elif k == "bad":
                bad = mk_bad(s[1], s[3])
                self.stats["bad"] += 1
                if not self.active:
                    sys.displayhook(bad)  # the base hook takes anything
                    self.base_model.append(bad)
                    continue
                tag = self.active[-1]["tag"]
                before = list(tag.children)
                hook = sys.displayhook
                try:
                    sys.displayhook(bad)
                    raised = None
                except TypeError as e:
                    raised = e
                check(raised is not None, f"displaying an invalid value ({s[1]}) inside a block did not raise TypeError")
                now = list(tag.children)
                check(len(now) == len(before) and all(a is b for a, b in zip(now, before)), "rejected value changed the tag's children")
                check(sys.displayhook is hook, "rejected value changed the display hook")
                if not s[2]:
                    raise Boom("propagating TypeError from an invalid displayed value") from raised
            elif k == "raise":
                raise (BoomBase() if len(s) > 1 and s[1] == "base" else Boom())
            elif k == "try":
                depth_before = len(self.active)
                try:
                    self.run(s[1])
                except BOOMS:
                    check(len(self.active) == depth_before, "harness: active stack not unwound")
            elif k == "reenter":
                if not self.active:
                    continue
                m = self.active[s[1] % len(self.active)]
                hook = sys.displayhook
                kids_before = [list(a["tag"].children) for a in self.active]
                self.stats["reentry"] += 1
                try:
                    m["tag"].__enter__()
                    entered = True
                except Exception:  # noqa - the statement only says "raises"
                    entered = False
                check(not entered, "entering a tag whose block is still active did not raise")
                check(sys.displayhook is hook, "failed re-entry changed the display hook")
                for a, kb in zip(self.active, kids_before):
                    check(list(a["tag"].children) == kb or all(x is y for x, y in zip(a["tag"].children, kb)), "failed re-entry changed children")
            elif k == "with":
                init = ["init"] if s[1] in ("ul", "p") else []
                tag = h.Tag(s[1], *init, _add_ws=s[2])
                if s[1] not in ("div", "span", "ul", "p"):
                    self.stats["special_block"] = 1
                m = {"tag": tag, "kids": [("text", x) for x in init]}
                self._block(tag, m, s[3], s[1], may_refuse=False)
            elif k == "withcopy":
                # a copy (copy.copy / tagify()) of a tag whose own block has ended is used as a block of its own: the
                # library may refuse to enter it (nothing may change then) - if it enters, the copy collects, not the original
                src = self.finished[-1] if self.finished else None
                if src is None or any(a["tag"] is src["tag"] for a in self.active):
                    continue
                import copy as _copy

                c = _copy.copy(src["tag"]) if s[2] else src["tag"].tagify()
                if s[2] is False and any(kd[0] == "obj" and hasattr(kd[1], "tagify") and not isinstance(kd[1], h.Tag) for kd in src["kids"]):
                    continue  # tagify() would expand harness objects: keep to plain copies there
                m = {"tag": c, "kids": [kd if kd[0] != "obj" or not isinstance(kd[1], (h.Tag, h.MetadataNode)) else ("any", None) for kd in src["kids"]], "orig": src}
                self.stats["copy_block"] = 1
                self._block(c, m, s[1], "copy of <%s>" % src["tag"].name, may_refuse=True)
            else:
                raise HarnessError("unknown statement " + repr(s))


def body(case, note):
    import builtins
    import contextlib
    import io

    it = Interp()
    if case.get("hook_returns"):
        it.returns = ["display-handle"]
    saved = sys.displayhook
    default = bool(case.get("default_hook"))
    # either a recording hook, or the interpreter's own default hook (which prints repr(value) and binds builtins._)
    base_hook = sys.__displayhook__ if default else it.base  # one object, so that identity comparisons are meaningful
    if not default and case.get("falsy_hook"):
        # any callable may be the hook - also one whose truth value is False (e.g. an empty recording list with __call__)
        class RecordingList(list):
            def __call__(self, v):
                it.base_seen.append(v)
                return it.returns

        base_hook = RecordingList()
    inner_seen: list = []
    if not default and case.get("wrapped_hook"):
        # a decorated hook (functools.wraps): what it wraps must not be called in its place
        import functools

        def plain_hook(v):
            inner_seen.append(v)

        rec = base_hook

        @functools.wraps(plain_hook)
        def logged_hook(v):
            rec(v)

        base_hook = logged_hook
    sys.displayhook = base_hook
    buf = io.StringIO()
    saved_underscore = getattr(builtins, "_", None)
    try:
        with contextlib.redirect_stdout(buf) if default else contextlib.nullcontext():
            try:
                it.run(case["prog"])
            except BOOMS:
                pass
        check(sys.displayhook is base_hook, "at program end the display hook is not the outermost hook")
        check(not inner_seen, "a function that the installed hook merely wraps (functools.wraps) was called instead of the hook", len(inner_seen))
        check(not it.active, "harness: active stack not empty")
        if default:
            shown = [v for v in it.base_model if v is not None]
            with contextlib.redirect_stdout(io.StringIO()):
                want = "".join(repr(v) + "\n" for v in shown)
            check(buf.getvalue() == want, "the interpreter's default hook did not receive exactly the modelled values (each tag once, on exit, in order)", want[:600], buf.getvalue()[:600])
            if shown:
                check(getattr(builtins, "_", None) is shown[-1], "builtins._ is not the last value handed to the default hook")
        else:
            check(len(it.base_seen) == len(it.base_model) and all(a is b for a, b in zip(it.base_seen, it.base_model)), "values received by the outermost hook differ from the model (each tag exactly once, on exit, in order)", [type(x).__name__ for x in it.base_model], [type(x).__name__ for x in it.base_seen])
    finally:
        sys.displayhook = saved
        builtins._ = saved_underscore
    s = it.stats
    note(
        s["max_depth"] >= 2 and s["exc_crossed"] >= 1,
        "depth>=3" if s["max_depth"] >= 3 else "",
        "exception-crossed-block" if s["exc_crossed"] else "",
        "reentry" if s["reentry"] else "",
        "invalid-display-in-block" if s["bad"] else "",
        "blocks" if s["blocks"] else "no-blocks",
        "default-hook" if default else "",
        "falsy-hook" if (not default and case.get("falsy_hook")) else "",
        "same-object-again" if s.get("again") else "",
        "decorated-hook" if (not default and case.get("wrapped_hook")) and s["blocks"] else "",
        "void-or-special-block-tag" if s.get("special_block") else "",
        "copy-of-finished-tag-used-as-block" if s.get("copy_block") else "",
        "non-Exception-BaseException-crossed-block" if s.get("base_exc_crossed") else "",
        "hook-returns-a-value" if case.get("hook_returns") and not default and s["exc_crossed"] else "",
        "self-rendering-str/number-subclass" if "'rich" in repr(case["prog"]) and s["blocks"] else "",
    )


RULE = (
    "programs of up to ~40 statements and with-nesting depth 4: display of str/number/None/Ellipsis/_repr_html_ object/HTML/Tag/tagifiable/dependency/"
    "nested lists/TagList, invalid values (set, dict, object(), bytes, complex; caught locally or propagating), raise, try/except, re-entry of an active tag; "
    "non-trivial = nesting depth >=2 and an exception crossing at least one block boundary; distinct by sha1 of the program"
)

CLAUSES = [
    Clause("programs", body, strategy=case_strategy, quick=600, thorough=10000, shards_quick=4, required=("exception-crossed-block", "reentry", "invalid-display-in-block", "depth>=3", "default-hook", "falsy-hook", "same-object-again", "decorated-hook", "void-or-special-block-tag", "hook-returns-a-value", "self-rendering-str/number-subclass", "non-Exception-BaseException-crossed-block", "copy-of-finished-tag-used-as-block"), rule="see RULE"),
]
