"""C19 - every tag function creates its own element with the documented default.

catalogue : every function of htmltools.tags / htmltools.svg and the 17 top-level shortcuts  (exhaustive)
args      : generated argument lists, each applied to *every* function                       (Hypothesis x exhaustive)
"""

from __future__ import annotations

import ast
import inspect
import os

from hypothesis import strategies as st

from hv import gen
from hv.build import attr_value, build
from hv.core import REPO, Clause, HarnessError, check
from hv.oracle import snapshot as S

ASSUMPTIONS = [
    "the project's inline/block classification is _INLINE_TAG_NAMES in scripts/generate_tags.py of the tree under test, read with ast.literal_eval (the script itself downloads and cannot be imported)",
    "a function's element name is its Python name",
]

SHORTCUTS = ["a", "br", "code", "div", "em", "h1", "h2", "h3", "h4", "h5", "h6", "hr", "img", "p", "pre", "span", "strong"]


def inline_names() -> set:
    p = os.path.join(REPO, "scripts", "generate_tags.py")
    with open(p) as f:
        tree = ast.parse(f.read())
    for node in tree.body:
        if isinstance(node, ast.Assign) and any(isinstance(t, ast.Name) and t.id == "_INLINE_TAG_NAMES" for t in node.targets):
            return set(ast.literal_eval(node.value))
    raise HarnessError("_INLINE_TAG_NAMES not found in scripts/generate_tags.py")


def functions():
    """[(module label, name, function)] for tags, svg and the top-level shortcuts"""
    import htmltools as h

    out = []
    for label, mod in (("tags", h.tags), ("svg", h.svg)):
        for n, f in vars(mod).items():
            if inspect.isfunction(f) and f.__module__ == mod.__name__ and not n.startswith("_"):
                out.append((label, n, f))
    for n in SHORTCUTS:
        out.append(("top", n, getattr(h, n, None)))
    return out


def enum_catalogue(tier):
    for label, n, f in functions():
        yield {"mod": label, "name": n}


def body_catalogue(case, note):
    import htmltools as h

    label, name = case["mod"], case["name"]
    if label == "top":
        f = getattr(h, name, None)
        check(f is not None, f"top-level shortcut {name} is missing")
        check(f is getattr(h.tags, name), f"htmltools.{name} is not htmltools.tags.{name}")
        check(name in h.__all__, f"{name} missing from htmltools.__all__")
    else:
        f = getattr(h.svg if label == "svg" else h.tags, name)
    inline = inline_names()
    default = name not in inline
    # tags whose names differ from this one only in letter case were created earlier in the process
    for variant in {name.upper(), name.lower(), name.swapcase(), name.capitalize()} - {name}:
        h.Tag(variant, "earlier")
    t = f()
    check(type(t) is h.Tag, f"{label}.{name}() does not return a Tag", type(t).__name__)
    check(t.name == name, f"{label}.{name}() creates a <{t.name}> element")
    check(t.add_ws is default, f"{label}.{name}() defaults to add_ws={t.add_ws}, the project classifies it as {'inline' if not default else 'block'}")
    check(len(t.attrs) == 0 and len(t.children) == 0, "default call is not empty")
    for ws in (True, False):
        t2 = f("c", _add_ws=ws, id="i")
        check(t2.add_ws is ws and t2.name == name, f"{label}.{name}(_add_ws={ws}) not honoured")
    from hv.history import failed_operations

    failed_operations(key=name)
    for bad in (None, 0, 1, "True", [], 1.0):
        try:
            f(_add_ws=bad)
            raised = None
        except TypeError:
            raised = "TypeError"
        except Exception as e:  # noqa
            raised = type(e).__name__
        check(raised == "TypeError", f"{label}.{name}(_add_ws={bad!r}) expected TypeError, got {raised}")
    # every call creates its own element: results are distinct objects and changing one never shows in a later call
    a1, a2 = f(), f()
    check(a1 is not a2 and a1.attrs is not a2.attrs and a1.children is not a2.children, f"{label}.{name}() returned the same object (or shared parts) twice")
    a1.add_class("changed")
    a1.append("child")
    a1.attrs["data-x"] = "1"
    a3 = f()
    check(len(a3.attrs) == 0 and len(a3.children) == 0 and a3.name == name and a3.add_ws is default, f"{label}.{name}(): a later call shows changes made to an earlier result", dict(a3.attrs), len(a3.children))
    check(len(a2.attrs) == 0 and len(a2.children) == 0, f"{label}.{name}(): changing one result changed another")
    b1 = f("x", id="i")
    b1.append("y")
    b2 = f("x", id="i")
    check(S.snap(b2) == S.snap(h.Tag(name, "x", id="i", _add_ws=default)), f"{label}.{name}('x', id='i') after an earlier result was changed differs from Tag(...)")
    # an element nested in one of the same name; long argument lists (size thresholds); both compared with the constructor
    for ws in (None, True, False):
        kw_ws = {} if ws is None else {"_add_ws": ws}
        eff = default if ws is None else ws
        inner = lambda: h.Tag(name, "in", h.Tag("i", _add_ws=False), id="in", class_="inner")
        c1 = f(inner(), class_="outer", id="out", **kw_ws)
        check(S.snap(c1) == S.snap(h.Tag(name, inner(), class_="outer", id="out", _add_ws=eff)), f"{label}.{name}(<{name}>...) differs from the Tag constructor (_add_ws={ws})")
        for cnt in (13, 40, 130):
            many = lambda: [h.Tag("option", "o%d" % i) if i % 3 == 0 else "t%d" % i for i in range(cnt)]
            c2 = f(*many(), **kw_ws)
            check(S.snap(c2) == S.snap(h.Tag(name, *many(), _add_ws=eff)), f"{label}.{name}() with {cnt} children differs from the Tag constructor (_add_ws={ws})")
            check(c2.add_ws is eff, f"{label}.{name}() with {cnt} children: whitespace flag {c2.add_ws}, expected {eff}")
            c3 = f({"id": "d"}, *many()[: cnt - 1], **kw_ws)
            check(S.snap(c3) == S.snap(h.Tag(name, {"id": "d"}, *many()[: cnt - 1], _add_ws=eff)), f"{label}.{name}() with an attribute dict and {cnt - 1} children differs from the Tag constructor")
    sig = inspect.signature(f)
    check(sig.parameters["_add_ws"].default is default, "signature default of _add_ws differs from the classification")
    note(True, "mod:" + label, "inline" if not default else "block")


# ---------------------------------------------------------------- generated argument lists


def arg_strategy():
    child = st.one_of(
        st.builds(lambda s: {"k": "text", "s": s}, gen.hot_text(3)),
        st.builds(lambda s: {"k": "text", "s": s}, st.sampled_from(["\nfoo", "\r\nbar", "\n", " lead", "", "<b>", "a\nb\n"])),
        st.sampled_from(
            [
                {"k": "num", "v": 3},
                {"k": "none"},
                {"k": "html", "s": "<i>"},
                {"k": "tag", "name": "b", "ws": False, "attrs": [], "kids": [{"k": "text", "s": "x"}]},
                {"k": "dep", "name": "d", "version": "1"},
                {"k": "list", "t": "list", "kids": [{"k": "text", "s": "l"}, {"k": "none"}, {"k": "list", "t": "tuple", "kids": [{"k": "num", "v": 1.5}]}]},
                {"k": "repr", "s": "<u>"},
            ]
        ),
    )
    # child elements: block ones, ones that have a conventional position inside their parent, any catalogue element
    FIRSTISH = ["title", "desc", "title", "desc", "caption", "legend", "summary", "figcaption", "thead", "head", "source", "col"]
    tagchild = st.builds(
        lambda n, ws, txt: {"k": "tag", "name": n, "ws": ws, "attrs": [], "kids": [{"k": "text", "s": txt}] if txt else []},
        st.one_of(st.sampled_from(["div", "p", "ul", "section"]), st.sampled_from(FIRSTISH), st.sampled_from(FIRSTISH), st.sampled_from(gen.catalogue_names())),
        st.booleans(),
        st.sampled_from(["", "T", "x y"]),
    )
    rows = st.sampled_from(
        [
            {"k": "list", "t": "taglist", "kids": [{"k": "tag", "name": "tr", "ws": True, "attrs": [], "kids": []}, {"k": "text", "s": "r"}]},
            {"k": "list", "t": "taglist", "kids": []},
            {"k": "list", "t": "list", "kids": [{"k": "text", "s": "i"}, {"k": "tag", "name": "li", "ws": True, "attrs": [], "kids": []}]},
            {"k": "list", "t": "tuple", "kids": [{"k": "text", "s": "u"}]},
        ]
    )
    child = st.one_of(child, child, tagchild, rows)
    common = st.sampled_from(
        [["target", "_blank"], ["target", "_self"], ["rel", "noopener"], ["type", "text"], ["type", "submit"], ["name", "n"], ["value", ""], ["src", "s.png"], ["alt", ""], ["role", "button"],
         ["method", "post"], ["action", "/"], ["width", 10], ["height", "5"], ["loading", "lazy"], ["download", True], ["hidden", True], ["tabindex", -1], ["lang", "en"], ["dir", "rtl"], ["charset", "utf-8"],
         ["content", "c"], ["http_equiv", "x"], ["media", "all"], ["viewBox", "0 0 1 1"], ["fill", "none"], ["d", "M0 0"], ["xmlns", "http://www.w3.org/2000/svg"], ["open", True], ["checked", False], ["disabled", None]]
    )
    pair = st.one_of(st.tuples(st.sampled_from(["id", "class_", "data_x", "x", "x_", "for_", "style", "href"]), st.one_of(gen.hot_text(2), st.sampled_from([True, False, None, 1, 2.5, {"html": "&h;"}]))), common.map(tuple))
    dict_only = st.sampled_from([["xlink:href", "#icon"], ["xml:lang", "en"], ["aria-label", "l"], ["data-x", "1"], ["@click", "f()"], ["class", "k"], ["for", "i"], ["href", "#a"]]).map(tuple)
    d = st.lists(st.one_of(pair, dict_only).map(list), max_size=3)
    # keywords whose names are the same attribute after normalisation (they are merged, not overwritten)
    colliding = st.builds(
        lambda fam, a, b, rest: [[fam[0], a], [fam[1], b]] + [p for p in rest if p[0] not in fam],
        st.sampled_from([["x", "x_"], ["class_", "class"], ["data_x", "data-x"], ["for_", "for"], ["style", "style_"], ["id", "id_"]]),
        st.sampled_from(["a", "k:v;", "1"]),
        st.sampled_from(["b", "m:n;", True, 2]),
        st.lists(pair.map(list), max_size=1),
    )
    return st.fixed_dictionaries(
        {
            "args": st.one_of(
                st.lists(st.one_of(st.tuples(st.just("c"), child).map(list), st.tuples(st.just("d"), d).map(list)), max_size=4),
                st.tuples(st.tuples(st.just("c"), rows).map(list)).map(list),  # a lone container argument
            ),
            "kw": st.one_of(st.lists(pair.map(list), max_size=3, unique_by=lambda p: p[0]), st.lists(pair.map(list), max_size=3, unique_by=lambda p: p[0]), colliding),
            "ws": st.sampled_from([None, None, True, False]),
            "prior_failed": st.sampled_from([False, False, True]),
        }
    )


def body_args(case, note):
    import htmltools as h

    inline = inline_names()

    def mk_args():
        out = []
        for kind, payload in case["args"]:
            if kind == "c":
                out.append(build(payload))
            else:
                d = {}
                for k, v in payload:
                    d[k] = attr_value(v)
                out.append(d)
        return out, {k: attr_value(v) for k, v in case["kw"]}

    n = 0
    prior_failed = bool(case.get("prior_failed"))
    if prior_failed:
        from hv.history import failed_operations

        failed_operations(key=case["args"])
    for label, name, f in functions():
        if prior_failed:
            # ... and a failed call of this very function (a valid child before the unsupported one)
            for badcall in (lambda: f("stale child", object()), lambda: f("stale child", title=object()), lambda: f({"class": "stale"}, _add_ws="no")):
                try:
                    badcall()
                except TypeError:
                    pass
        a1, k1 = mk_args()
        a2, k2 = mk_args()
        default = name not in inline
        ws = default if case["ws"] is None else case["ws"]
        got = f(*a1, **k1) if case["ws"] is None else f(*a1, _add_ws=case["ws"], **k1)
        want = h.Tag(name, *a2, _add_ws=ws, **k2)
        if S.snap(got) != S.snap(want):
            check(False, f"{label}.{name}(*args, **kw) differs from Tag({name!r}, *args, _add_ws={ws}, **kw)", S.snap(want), S.snap(got))
        check(got.get_html_string() == want.get_html_string(), f"{label}.{name}: rendering differs from the Tag constructor's")
        check(got.add_ws is ws, f"{label}.{name}: whitespace flag is {got.add_ws}, expected {ws} ({'default' if case['ws'] is None else 'explicit'})")
        check(got.name == name, f"{label}.{name}: element name is {got.name!r}")
        # "creates its own element": containers that were passed in and the new element stay independent
        conts = [a for a in a1 if isinstance(a, (list, h.TagList))]
        if conts:
            before = [S.snap(c) for c in conts]
            got.append("own-child")
            got.attrs["data-own"] = "1"
            check([S.snap(c) for c in conts] == before, f"{label}.{name}: changing the new element changed a container that was passed as an argument")
            kids_before = S.snap(got.children)
            for c in conts:
                c.append("appended-to-the-argument-later")
            check(S.snap(got.children) == kids_before, f"{label}.{name}: appending to a container that was passed as an argument changed the element")
        n += 1
    has_child = any(k == "c" for k, _ in case["args"])
    has_attr = bool(case["kw"]) or any(k == "d" and p for k, p in case["args"])
    tagkids = [p for k, p in case["args"] if k == "c" and p["k"] == "tag"]
    note(has_child and has_attr, "explicit-ws" if case["ws"] is not None else "default-ws", "functions:%d" % n,
         "block-element-child" if any(p["ws"] for p in tagkids) else "",
         "after-failed-calls" if prior_failed else "",
         "lone-container-argument" if len(case["args"]) == 1 and case["args"][0][0] == "c" and case["args"][0][1]["k"] == "list" else "",
         "colliding-keywords-without-dict" if len({gen.norm_attr_name(k) for k, _ in case["kw"]}) < len(case["kw"]) and not any(k == "d" for k, _ in case["args"]) else "",
         "title-or-desc-child-not-first" if any(k == "c" and p["k"] == "tag" and p["name"] in ("title", "desc") and i > 0 and any(k2 == "c" for k2, _ in case["args"][:i]) for i, (k, p) in enumerate(case["args"])) else "",
         "title/desc/caption-child-not-first" if any(k == "c" and p["k"] == "tag" and p["name"] in ("title", "desc", "caption", "legend", "summary") and i > 0 and any(k2 == "c" for k2, _ in case["args"][:i]) for i, (k, p) in enumerate(case["args"])) else "")


def selftest():
    names = inline_names()
    assert "span" in names and "div" not in names and len(names) > 40
    fs = functions()
    assert len(fs) > 150


RULE = (
    "catalogue: every function object of htmltools.tags and htmltools.svg plus the 17 top-level shortcuts (complete; counts in classes). "
    "args: generated argument lists (children incl. nested lists, positional attribute dicts, keywords, explicit _add_ws or absent), each "
    "applied to every function and compared with Tag(name, ...); non-trivial = at least one child and one attribute; distinct by sha1"
)

CLAUSES = [
    Clause("catalogue", body_catalogue, source="enum", enum=enum_catalogue, shards_quick=2, shards_thorough=4, required=("mod:tags", "mod:svg", "mod:top", "inline", "block"), rule="every function"),
    Clause("args", body_args, strategy=arg_strategy, quick=300, thorough=1500, shards_quick=4, required=("explicit-ws", "default-ws", "block-element-child", "title/desc/caption-child-not-first", "title-or-desc-child-not-first", "lone-container-argument", "colliding-keywords-without-dict", "after-failed-calls"), rule="see RULE"),
]
