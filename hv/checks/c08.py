"""C08 - rendering and tagify are pure and consistent; tagify returns an independent copy.

purity   : pools of trees / lists / dependencies / documents; generated interleavings of
           the read-only operations; structural snapshot S of every pool object compared
           with its baseline after every step; repeated results equal       (history, Hypothesis)
tagify   : result == original when nothing needs expansion, fixed point, id-disjoint,
           mutation of either side never shows on the other                 (Hypothesis)
views    : str == repr == _repr_html_ == render()['html'] in the default mode
equality : independent builds are ==; one structural edit makes them !=     (Hypothesis)
"""

from __future__ import annotations

import copy
import os
import shutil
import tempfile

from hypothesis import strategies as st

from hv import gen
from hv.build import build
from hv.core import Clause, canon, check
from hv.oracle import snapshot as S

ASSUMPTIONS = [
    "S compares structure (classes, names, flags, ordered attributes with value class and text, children, every instance field of metadata nodes and documents), not identity",
    "payload inside a copied HTMLDependency (head/script lists) may be shared with the original: the statement lists tag, child list, attribute map and metadata node objects",
    "== is only asserted for trees without bare MetadataNode / _repr_html_ / tagifiable harness objects (these have identity equality); str vs HTML() of equal text is not asserted unequal",
    "constructors are not in the statement's list of read-only operations",
]

# ---------------------------------------------------------------- generators

DEP_POOL = [
    {"k": "dep", "name": "a", "version": "1.0", "source": {"package": "htmltools", "subdir": "libtest/testdep"}, "script": [{"src": "testdep.js"}], "stylesheet": [{"href": "testdep.css"}]},
    {"k": "dep", "name": "a", "version": "1.10", "source": {"package": "htmltools", "subdir": "libtest/testdep"}, "script": {"src": "testdep.js", "defer": ""}, "all_files": True},
    {"k": "dep", "name": "b", "version": "2.0", "source": {"href": "https://cdn.example/b/"}, "script": [{"src": "b.js"}, {"src": "b2.js"}], "stylesheet": {"href": "b.css", "media": "print"}},
    {"k": "dep", "name": "b", "version": "2.0.1", "head": "<link rel=x>"},
    {"k": "dep", "name": "c", "version": "0.1", "meta": {"name": "viewport", "content": "w"}, "head": [{"k": "tag", "name": "title", "ws": True, "attrs": [], "kids": [{"k": "text", "s": "T&t"}]}]},
    {"k": "dep", "name": "d", "version": "3", "source": {"package": "htmltools", "subdir": "libtest/dep2"}, "script": [{"src": "td2.js"}], "stylesheet": [{"href": "td2.css"}], "meta": [{"name": "m", "content": "1"}], "head": "h"},
    {"k": "headc", "kids": [{"k": "tag", "name": "meta", "ws": True, "attrs": [["name", "q"]], "kids": []}]},
    {"k": "headc", "kids": [{"k": "text", "s": "x<y"}]},
    {"k": "meta"},
]
# same name and version as DEP_POOL[0] but another directory: results must not depend on which one was asked first
DEP_POOL.insert(6, {"k": "dep", "name": "a", "version": "1.0", "source": {"package": "htmltools", "subdir": "libtest/dep2"}, "script": [{"src": "td2.js"}], "stylesheet": [{"href": "td2.css"}]})
# directories given without a package name (relative to the current directory / absolute, not canonical), an explicit
# "package": None, and payloads that are present but empty
for _d in (
    {"k": "dep", "name": "r", "version": "1.2", "source": {"subdir": "@rel:libtest/testdep"}, "script": [{"src": "testdep.js"}], "stylesheet": [{"href": "testdep.css"}]},
    {"k": "dep", "name": "r2", "version": "0.2", "source": {"package": None, "subdir": "@abs:libtest/dep2"}, "script": [{"src": "td2.js"}], "all_files": True},
    {"k": "dep", "name": "e", "version": "1", "head": []},
    {"k": "dep", "name": "e2", "version": "1", "head": [{"k": "none"}], "script": [], "meta": []},
    {"k": "headc", "kids": []},
    {"k": "dep", "name": "ns", "version": "1", "script": [{"src": "my script%.js"}], "stylesheet": [{"href": "\u00e9 b.css"}]},
):
    DEP_POOL.insert(len(DEP_POOL) - 1, _d)
VOID_LEAVES = [
    {"k": "tag", "name": "br", "ws": False, "attrs": [], "kids": []},
    {"k": "tag", "name": "hr", "ws": True, "attrs": [["class_", "sep"]], "kids": []},
    {"k": "tag", "name": "img", "ws": False, "attrs": [["src", "i.png"], ["alt", "a"]], "kids": []},
    {"k": "tag", "name": "input", "ws": False, "attrs": [["type", "text"]], "kids": []},
    {"k": "tag", "name": "span", "ws": False, "attrs": [], "kids": []},
]


def rich_leaf(tfy: bool = True, plain_only: bool = False):
    # the same short strings occur as plain text and as HTML(): equal, equally hashing, differently rendered
    TWINS = ["<b>x</b>", "&amp;", "", "<b>", "a&b", "&lt;"]
    text = st.builds(lambda s: {"k": "text", "s": s}, st.one_of(gen.safe_text(0, 4), gen.hot_text(3), st.sampled_from(TWINS)))
    html = st.builds(lambda s: {"k": "html", "s": s}, st.one_of(st.sampled_from(TWINS), gen.hot_text(3)))
    # the two definitions with equal name + version and different content are made frequent: trees holding both
    dep = st.one_of(st.sampled_from(DEP_POOL[:-1] if plain_only else DEP_POOL), st.sampled_from([DEP_POOL[0], DEP_POOL[6]]))
    alts = [text, text, html, dep, dep, st.sampled_from(VOID_LEAVES)]
    if not plain_only:
        alts.append(st.builds(lambda s: {"k": "repr", "s": "<u>" + s + "</u>"}, gen.safe_text(0, 3)))
    return gen.opaque(st.one_of(*alts))


ATTR_VALS = st.one_of(gen.safe_text(0, 4), gen.hot_text(2), st.sampled_from([True, 1, 2.5, {"html": "&x;"}, {"html": "a b"}]))
ATTRS = st.lists(st.tuples(st.sampled_from(["id", "class_", "lang", "data_x", "title", "style", "hx_on__after_request", "a__b", "x__", "_lead", "data__x_y_", "A_b"]), ATTR_VALS).map(list), max_size=3)
NAMES = st.sampled_from(["div", "p", "span", "a", "ul", "b", "section", "head", "body", "title"])


def rich_tag(children, names=NAMES):
    return st.builds(
        lambda n, ws, a, k: {"k": "tag", "name": n, "ws": ws, "attrs": a, "kids": k},
        names,
        st.booleans(),
        ATTRS,
        st.one_of(st.lists(children, min_size=1, max_size=4), st.lists(children, max_size=2)),
    )


def rich_tree(depth: int = 2, tfy: bool = True, plain_only: bool = False):
    leaf = rich_leaf(tfy, plain_only)
    node = leaf
    for d in range(depth):
        alts = [leaf, rich_tag(node), rich_tag(node)]
        if tfy and d == depth - 1:
            inner = node
            alts.append(
                st.builds(
                    lambda res, rp: {"k": "tfy", "res": res, "repr": rp},
                    st.one_of(
                        rich_tag(inner),
                        st.builds(lambda ks: {"k": "list", "t": "taglist", "kids": ks}, st.lists(inner, max_size=3)),
                        st.sampled_from([{"k": "text", "s": "t<"}, {"k": "html", "s": "<i>"}, DEP_POOL[0], DEP_POOL[4]]),
                    ),
                    st.booleans(),
                )
            )
        node = st.one_of(*alts)
    return rich_tag(node)


def html_root(tfy=True):
    """a lone <html> with optional head / body in any child position"""
    kid = rich_tree(1, tfy)
    head = rich_tag(st.one_of(rich_leaf(tfy), kid), st.just("head"))
    body = rich_tag(st.one_of(rich_leaf(tfy), kid), st.just("body"))
    kids = st.lists(st.one_of(head, body, st.sampled_from(DEP_POOL), kid), max_size=4).map(_one_head)
    return st.builds(lambda a, k: {"k": "tag", "name": "html", "ws": True, "attrs": a, "kids": k}, ATTRS, kids)


def _one_head(kids):
    seen = False
    out = []
    for k in kids:
        if k["k"] == "tag" and k["name"] == "head":
            if seen:
                continue
            seen = True
        out.append(k)
    return out


KW = st.lists(st.tuples(st.sampled_from(["lang", "class_", "data_x", "id"]), st.sampled_from(["en", "k", True, None, 3, {"html": "&v;"}])).map(list), max_size=3)


def pool_objects():
    tag = st.builds(lambda r: {"o": "tag", "r": r}, st.one_of(rich_tree(2), html_root()))
    lst = st.builds(lambda r: {"o": "list", "r": r}, st.lists(st.one_of(rich_tree(1), rich_leaf()), max_size=4))
    dep = st.builds(lambda r: {"o": "dep", "r": r}, st.sampled_from(DEP_POOL[:-1]))
    doc = st.builds(
        lambda shape, frag, hroot, body, later, kw: {
            "o": "doc",
            "shape": shape,
            "content": [hroot] if shape == "html" else ([dict(body, name="body")] if shape == "body" else (([dict(body, name="head")] + frag) if shape == "head-first" else frag)),
            "later": later if shape in ("fragment", "head-first") else [],
            "kw": kw,
        },
        st.sampled_from(["fragment", "body", "html", "html", "head-first"]),
        st.lists(st.one_of(rich_tree(1), rich_leaf()), max_size=3),
        html_root(),
        rich_tree(1),
        st.lists(rich_leaf(), max_size=2),
        KW,
    )
    return gen.opaque(st.one_of(tag, tag, lst, dep, doc, doc))


EOLS = ["\n", "", "\r\n"]
LIBS = [None, "lib", "a/b"]


def op_strategy():
    i = st.integers(0, 5)
    b = st.booleans()
    return st.one_of(
        st.tuples(i, st.sampled_from(["tagify", "render", "str", "repr", "_repr_html_", "copy", "deps"]), b).map(list),
        st.tuples(i, st.just("ghs"), st.tuples(st.integers(0, 3), st.sampled_from(EOLS)).map(list)).map(list),
        st.tuples(i, st.sampled_from(["docrender", "save_html", "as_html_tags", "as_dict", "source_path_map"]), st.tuples(st.sampled_from(LIBS), b).map(list)).map(list),
        st.tuples(i, st.just("serialize"), st.sampled_from([None, 0, 2])).map(list),
        st.tuples(i, st.sampled_from(["mut_append", "mut_attr"]), st.integers(0, 20)).map(list),
    )


def purity_case():
    return st.fixed_dictionaries({"pool": st.lists(pool_objects(), min_size=2, max_size=4), "ops": st.lists(op_strategy(), min_size=3, max_size=18), "flaky": st.sampled_from([0, 0, 1, 2]), "twins": st.sampled_from([False, False, True]), "text_twins": st.sampled_from([False, False, True])})


def _make_flaky(r, budget):
    """the first budget[0] plain tagifiable objects of a pool recipe become components whose tagify() fails once"""
    if isinstance(r, list):
        return [_make_flaky(x, budget) for x in r]
    if not isinstance(r, dict) or "k" not in r:
        return r
    if r["k"] == "tfy" and budget[0] > 0 and not r.get("repr") and not r.get("variant"):
        budget[0] -= 1
        return dict(r, variant="flaky")
    if r["k"] in ("tag", "list", "headc"):
        return dict(r, kids=[_make_flaky(x, budget) for x in r["kids"]])
    return r


# ---------------------------------------------------------------- purity interpreter


def build_pool_obj(p):
    import htmltools as h

    if p["o"] == "tag":
        return build(p["r"])
    if p["o"] == "list":
        return h.TagList(*[build(r) for r in p["r"]])
    if p["o"] == "dep":
        return build(p["r"])
    if p["o"] == "doc":
        from hv.build import attr_value

        kw = {}
        for k, v in p["kw"]:
            kw[k] = attr_value(v)
        d = h.HTMLDocument(*[build(r) for r in p["content"]], **kw)
        for r in p["later"]:
            d.append(build(r))
        return d
    raise ValueError(p)


def norm_result(x):
    """comparable, identity-free form of an operation result"""
    import htmltools as h

    if isinstance(x, dict) and set(x) == {"dependencies", "html"}:
        return ("rendered", x["html"], tuple(S.snap(d) for d in x["dependencies"]))
    return S.snap(x)


def _dir_listing(root):
    out = []
    for dp, dn, fn in os.walk(root):
        for f in fn:
            p = os.path.join(dp, f)
            with open(p, "rb") as fh:
                out.append((os.path.relpath(p, root), fh.read()))
    return sorted(out)


def apply_op(obj, kind, op, arg, tmp):
    """returns (applicable, normalised result)"""
    import htmltools as h

    is_tl = kind in ("tag", "list")
    if op in ("tagify", "render", "str", "repr", "_repr_html_", "deps") and is_tl:
        if op == "tagify":
            return True, norm_result(obj.tagify())
        if op == "render":
            return True, norm_result(obj.render())
        if op == "str":
            return True, str(obj)
        if op == "repr":
            return True, repr(obj)
        if op == "_repr_html_":
            return True, obj._repr_html_()
        return True, norm_result(obj.tagify().get_dependencies(dedup=bool(arg)))
    if op == "copy":
        return True, norm_result(copy.copy(obj))
    if op in ("str", "repr") and kind == "dep":
        return True, (str(obj) if op == "str" else repr(obj))
    if op == "ghs" and is_tl:
        return True, obj.tagify().get_html_string(arg[0], arg[1])
    if op == "docrender" and kind == "doc":
        return True, norm_result(obj.render(lib_prefix=arg[0], include_version=arg[1]))
    if op == "save_html" and kind in ("tag", "list", "doc"):
        d = tempfile.mkdtemp(dir=tmp)
        f = os.path.join(d, "out", "index.html")
        os.makedirs(os.path.dirname(f))
        r = obj.save_html(f, libdir=arg[0], include_version=arg[1])
        return True, ("saved", r == f, tuple(_dir_listing(d)))
    if kind == "dep":
        if op == "as_html_tags":
            return True, norm_result(obj.as_html_tags(lib_prefix=arg[0], include_version=arg[1]))
        if op == "as_dict":
            return True, norm_result(obj.as_dict(lib_prefix=arg[0], include_version=arg[1]))
        if op == "source_path_map":
            spm = obj.source_path_map(lib_prefix=arg[0], include_version=arg[1])
            src = obj.source
            if isinstance(src, dict) and src.get("package") == "htmltools":
                want = os.path.join(os.path.dirname(h.__file__), src["subdir"])
                check(os.path.realpath(spm["source"]) == os.path.realpath(want), "source_path_map()['source'] is not this dependency's own directory (depends on what was asked before?)", want, spm["source"])
            return True, norm_result(spm)
        if op == "serialize":
            return True, obj.serialize_to_script_json(arg).get_html_string()
    return False, None


def mutate(obj, kind, op, n):
    import htmltools as h

    if kind == "doc":
        obj.append(h.Tag("i", "late%d" % n))
        return True
    if kind == "dep":
        obj.name = obj.name + "x"
        return True
    tags = []

    def walk(o):
        if isinstance(o, h.Tag):
            tags.append(o)
        if isinstance(o, (h.Tag,)):
            for c in o.children:
                walk(c)
        elif isinstance(o, h.TagList):
            for c in o:
                walk(c)

    walk(obj)
    if not tags:
        if isinstance(obj, h.TagList):
            obj.append("m%d" % n)
            return True
        return False
    t = tags[n % len(tags)]
    if op == "mut_append":
        t.append("m%d" % n, h.Tag("em", _add_ws=False))
    else:
        t.attrs["data-m"] = str(n)
        t.add_class("k%d" % n)
    return True


def body_purity(case, note):
    tmp = tempfile.mkdtemp(prefix="hv-c08-")
    try:
        _purity(case, note, tmp)
    finally:
        shutil.rmtree(tmp, ignore_errors=True)


def _purity(case, note, tmp):
    from hv import build as B

    B.FLAKY_SEEN.clear()
    if case.get("flaky"):
        budget = [case["flaky"]]
        case = dict(case, pool=[dict(p, **{k: _make_flaky(p[k], budget) for k in ("r", "content", "later") if k in p}) for p in case["pool"]])
    if case.get("twins"):
        # two dependency definitions with the same name and version but different directories, each asked in turn
        n0 = len(case["pool"])
        case = dict(case, pool=case["pool"] + [{"o": "dep", "r": DEP_POOL[0]}, {"o": "dep", "r": DEP_POOL[6]}],
                    ops=list(case["ops"]) + [[n0, "source_path_map", ["lib", True]], [n0 + 1, "source_path_map", ["lib", True]], [n0, "as_dict", ["lib", True]], [n0 + 1, "as_html_tags", ["lib", False]], [n0, "source_path_map", ["lib", True]]])
    if case.get("text_twins"):
        # the same characters once as trusted markup and once as plain text, in two trees rendered in turn
        n0 = len(case["pool"])
        tw = lambda kind, t: {"o": "tag", "r": {"k": "tag", "name": "div", "ws": True, "attrs": [], "kids": [{"k": kind, "s": t}]}}
        case = dict(case, pool=case["pool"] + [tw("html", "<b>x</b>"), tw("text", "<b>x</b>"), tw("html", "a&b")],
                    ops=list(case["ops"]) + [[n0, "ghs", [0, "\n"]], [n0 + 1, "str", False], [n0, "ghs", [0, "\n"]], [n0, "render", False], [n0 + 1, "ghs", [0, "\n"]], [n0, "str", False], [n0 + 1, "ghs", [0, "\n"]], [n0 + 1, "str", False], [n0, "str", False]])
    pool = [build_pool_obj(p) for p in case["pool"]]
    kinds = [p["o"] for p in case["pool"]]
    base = [S.snap(o) for o in pool]
    memo: dict = {}
    done = []
    classes = set()
    for i, op, arg in case["ops"]:
        i = i % len(pool)
        obj, kind = pool[i], kinds[i]
        if op.startswith("mut_"):
            if mutate(obj, kind, op, arg):
                base[i] = S.snap(obj)
                memo = {k: v for k, v in memo.items() if k[0] != i}
                classes.add("mutation-then-more-ops")
            continue
        try:
            ok, res = apply_op(obj, kind, op, arg, tmp)
        except B.FlakyError:
            # user code (a component's tagify()) failed inside a read-only operation: nothing may have changed, and
            # the operation must work the next time it is asked
            classes.add("operation-failed-in-user-code")
            for j, o in enumerate(pool):
                now = S.snap(o)
                if now != base[j]:
                    check(False, f"{op}({arg!r}) on pool[{i}] ({kind}), which failed in user code, changed pool[{j}] ({kinds[j]})", _diff(base[j], now))
            continue
        if not ok:
            continue
        done.append((i, op))
        classes.add("op:" + op)
        for j, o in enumerate(pool):
            now = S.snap(o)
            if now != base[j]:
                check(False, f"{op}({arg!r}) on pool[{i}] ({kind}) changed pool[{j}] ({kinds[j]})", _diff(base[j], now))
        key = (i, op, canon(arg))
        if key in memo:
            check(memo[key] == res, f"{op}({arg!r}) on pool[{i}] ({kind}) gave a different result when repeated", _diff(memo[key], res))
            classes.add("repeated-op")
        else:
            memo[key] = res
        p = case["pool"][i]
        if kind == "doc" and p["shape"] == "head-first" and op in ("docrender", "save_html"):
            classes.add("head-first-document-rendered")
        if kind == "doc" and p["shape"] == "html" and op in ("docrender", "save_html"):
            classes.add("lone-html-rendered")
            if any(S.snap(v) != S.snap(None) for _, v in p["kw"]):
                classes.add("lone-html-with-kwargs-rendered")
    per_obj = {}
    for i, op in done:
        per_obj.setdefault(i, set()).add(op)
    has_dep = any("Dep" in repr(b) for b in base)
    note(any(len(v) >= 2 for v in per_obj.values()) and has_dep, *sorted(classes))


def _diff(a, b, path="") -> str:
    """first difference between two snapshots, for messages"""
    if a == b:
        return "equal"
    if isinstance(a, tuple) and isinstance(b, tuple) and len(a) == len(b):
        for k, (x, y) in enumerate(zip(a, b)):
            if x != y:
                return _diff(x, y, path + "/%d" % k)
    return f"at {path}: {str(a)[:300]} -> {str(b)[:300]}"


# ---------------------------------------------------------------- tagify clause


def has_kind(r, kinds):
    if isinstance(r, list):
        return any(has_kind(x, kinds) for x in r)
    if r["k"] in kinds:
        return True
    if r["k"] in ("tag", "list", "headc"):
        return any(has_kind(x, kinds) for x in r["kids"])
    if r["k"] == "tfy":
        return has_kind(r["res"], kinds)
    return False


def tagify_case():
    return st.fixed_dictionaries(
        {
            "root": st.one_of(rich_tree(2), rich_tree(2, tfy=False), html_root()),
            "as_list": st.booleans(),
            "muts": st.lists(st.tuples(st.sampled_from(["copy", "orig"]), st.sampled_from(["mut_append", "mut_attr", "mut_replace", "mut_depname", "mut_insert_deep"]), st.integers(0, 30)).map(list), max_size=4),
            "entered": st.sampled_from([False, False, True]),
        }
    )


def _all_tags(x, out):
    import htmltools as h

    if isinstance(x, h.Tag):
        out.append(x)
        for c in x.children:
            _all_tags(c, out)
    elif isinstance(x, h.TagList):
        for c in x:
            _all_tags(c, out)
    return out


def _mut2(x, op, n):
    import htmltools as h

    tags = _all_tags(x, [])
    if op == "mut_depname":
        deps = x.get_dependencies(dedup=False) if not _has_tfy_obj(x) else []
        if not deps:
            return False
        deps[n % len(deps)].name += "_renamed"
        return True
    if not tags:
        return False
    t = tags[n % len(tags)]
    if op == "mut_append":
        t.append("mm%d" % n)
    elif op == "mut_attr":
        t.attrs.update({"data-q": "v%d" % n})
        t.add_class("cls%d" % n)
    elif op == "mut_replace":
        if len(t.children) == 0:
            t.children.append("only")
        else:
            t.children[n % len(t.children)] = h.Tag("strong", "r%d" % n, _add_ws=False)
    elif op == "mut_insert_deep":
        t.insert(n % (len(t.children) + 1), [h.HTMLDependency("ins", "9.9"), "deep"])
    return True


def _has_tfy_obj(x):
    import htmltools as h
    from hv.build import Tfy

    if isinstance(x, Tfy):
        return True
    if isinstance(x, h.Tag):
        return any(_has_tfy_obj(c) for c in x.children)
    if isinstance(x, h.TagList):
        return any(_has_tfy_obj(c) for c in x)
    return False


def body_tagify(case, note):
    import htmltools as h

    r = case["root"]
    x = build(r)
    if case["as_list"]:
        x = h.TagList("lead", x, build(DEP_POOL[2]))
    has_tfy = has_kind(r, ("tfy",))
    if case.get("entered"):
        # some tags of the tree were filled through a `with tag:` block earlier on
        import sys

        saved = sys.displayhook
        sys.displayhook = lambda v: None
        try:
            for i, t in enumerate(_all_tags(x, [])):
                if i % 2 == 0:
                    with t:
                        sys.displayhook("via-with")
        finally:
            sys.displayhook = saved
    sx = S.snap(x)
    y = x.tagify()
    check(S.snap(x) == sx, "tagify() changed its receiver", _diff(sx, S.snap(x)))
    sy = S.snap(y)
    if not has_tfy:
        check(sy == sx, "tagify() of a tree that needs no expansion is not structurally equal to it", _diff(sx, sy))
        if not has_kind(r, ("meta", "repr")):
            check(y == x and x == y, "tagify() result != original although nothing needed expansion")
    else:
        check(not _has_tfy_obj(y), "tagify() result still contains a tagifiable harness object")
    y2 = y.tagify()
    check(S.snap(y2) == sy, "tagify() is not a fixed point on its own result", _diff(sy, S.snap(y2)))
    check(S.snap(y) == sy, "second tagify() changed the first result")
    ix, iy = S.tree_ids(x), S.tree_ids(y)
    for k in ix:
        shared = ix[k] & iy[k]
        check(not shared, f"tagify() result shares {len(shared)} {k} object(s) with the original")
    iy2 = S.tree_ids(y2)
    for k in iy:
        check(not (iy[k] & iy2[k]), f"tagify() of a tagified tree shares {k} objects with it")
    nm = 0
    for side, op, n in case["muts"]:
        a, b = (y, x) if side == "copy" else (x, y)
        sb = S.snap(b)
        if _mut2(a, op, n):
            nm += 1
            check(S.snap(b) == sb, f"{op} on the {'copy' if side == 'copy' else 'original'} changed the other tree", _diff(sb, S.snap(b)))
    if not has_tfy and not has_kind(r, ("meta", "repr")) and not case["muts"]:
        import copy as _copy

        c = _copy.copy(x)
        check(c == x and S.snap(c) == S.snap(x), "copy.copy(x) is not equal to x")
    note(nm >= 1 and has_kind(r, ("dep", "headc")), "with-tfy" if has_tfy else "no-tfy", "mutation-after-tagify" if nm else "", "as-list" if case["as_list"] else "", "used-as-context-manager" if case.get("entered") else "")


# ---------------------------------------------------------------- views


def body_views(case, note):
    import htmltools as h

    x = build(case["root"])
    if case["as_list"]:
        x = h.TagList(x, "tail", build(DEP_POOL[0]))
    big = case.get("big", 0)
    if big:
        # renderings longer than any plausible size threshold (about 12 KiB .. 150 KiB)
        x = h.TagList(x, h.Tag("pre", "line of text & more\n" * big), *[build(case["root"]) for _ in range(min(big // 40, 30))])
    check(h.html_dependency_render_mode == "invisible", "harness: render mode is not the default")
    a, b, c, d = str(x), repr(x), x._repr_html_(), x.render()["html"]
    check(a == b == c == d, "str / repr / _repr_html_ / render()['html'] disagree", a, b, c, d)
    check(type(a) is str and type(d) is str, "views are not plain str")
    note(has_kind(case["root"], ("dep", "headc", "tfy")), "as-list" if case["as_list"] else "", "rendering>10KiB" if len(a) > 10240 else "", "rendering>64KiB" if len(a) > 65536 else "")


# ---------------------------------------------------------------- equality

EDITS = ["name", "name-case", "ws", "attr-add", "attr-del", "attr-val", "attr-val-variant", "kid-add", "kid-del", "kid-text", "kid-swap-kind", "kid-as-markup", "dep-field"]

# attribute values that many tools treat as "the same" (token sets, case, surrounding blanks, number spellings)
VALUE_VARIANTS = {
    "class": [("ta tb", "tb ta"), ("ta tb", "ta  tb"), ("ta tb", "ta tb ta"), ("ta", "ta "), ("Ta", "ta")],
    "style": [("a:b; c:d;", "c:d; a:b;"), ("a:b;", "a: b;"), ("a:b;", "a:b")],
    "id": [("x", "X"), ("x", " x")],
    "data-n": [("1", "1.0"), ("1", "01"), ("true", "True")],
    "lang": [("en", "EN"), ("en-US", "en-us")],
}


def eq_case():
    return st.fixed_dictionaries(
        {
            "root": rich_tree(2, tfy=False, plain_only=True),
            "edit": st.sampled_from(EDITS + ["dep-field", "dep-field", "dep-field"]),
            "n": st.integers(0, 50),
            "as_list": st.booleans(),
        }
    )


def _paths(r, path, out):
    out.append((path, r))
    if r["k"] == "tag":
        for i, k in enumerate(r["kids"]):
            _paths(k, path + [i], out)
    return out


def _replace(r, path, new):
    if not path:
        return new
    kids = list(r["kids"])
    kids[path[0]] = _replace(kids[path[0]], path[1:], new)
    return dict(r, kids=kids)


def edit(r, kind, n):
    """returns an edited copy of recipe r differing in exactly one aspect, or None"""
    nodes = _paths(r, [], [])
    tags = [(p, x) for p, x in nodes if x["k"] == "tag"]
    p, t = tags[n % len(tags)]
    if kind == "name":
        return _replace(r, p, dict(t, name=t["name"] + "x"))
    if kind == "name-case":
        return _replace(r, p, dict(t, name=t["name"].swapcase()))
    if kind == "ws":
        return _replace(r, p, dict(t, ws=not t["ws"]))
    if kind == "attr-add":
        return _replace(r, p, dict(t, attrs=t["attrs"] + [["data-zz", "1"]]))
    if kind == "attr-del":
        if not t["attrs"]:
            return None
        # removing the last supplied pair changes the attribute set or a merged value
        return _replace(r, p, dict(t, attrs=t["attrs"][:-1])) if _attr_model(t["attrs"]) != _attr_model(t["attrs"][:-1]) else None
    if kind == "attr-val-variant":
        nm = sorted(VALUE_VARIANTS)[n % len(VALUE_VARIANTS)]
        v1, v2 = VALUE_VARIANTS[nm][(n // 7) % len(VALUE_VARIANTS[nm])]
        keep = [a for a in t["attrs"] if gen.norm_attr_name(a[0]) != nm]
        # both sides get the attribute; they differ only in the spelling of its value
        return (_replace(r, p, dict(t, attrs=keep + [[nm, v1]])), _replace(r, p, dict(t, attrs=keep + [[nm, v2]])))
    if kind == "attr-val":
        if not t["attrs"]:
            return None
        a = [list(x) for x in t["attrs"]]
        a[-1][1] = "changed-%d" % n
        return _replace(r, p, dict(t, attrs=a)) if _attr_model(a) != _attr_model(t["attrs"]) else None
    if kind == "kid-add":
        return _replace(r, p, dict(t, kids=t["kids"] + [{"k": "text", "s": "added"}]))
    if kind == "kid-del":
        if not t["kids"]:
            return None
        return _replace(r, p, dict(t, kids=t["kids"][:-1]))
    texts = [(q, x) for q, x in nodes if x["k"] in ("text", "html")]
    if kind == "kid-text":
        if not texts:
            return None
        q, x = texts[n % len(texts)]
        return _replace(r, q, dict(x, s=x["s"] + "!"))
    if kind == "kid-swap-kind":
        kids = [(q, x) for q, x in nodes if q]
        if not kids:
            return None
        q, x = kids[n % len(kids)]
        new = {"k": "text", "s": "swapped"} if x["k"] == "tag" else {"k": "tag", "name": "i", "ws": False, "attrs": [], "kids": []}
        if x["k"] in ("dep", "headc"):
            new = {"k": "text", "s": "swapped"}
        return _replace(r, q, new)
    if kind == "kid-as-markup":
        # a child element replaced by its own rendering marked as HTML(): same markup, different structure
        kids = [(q, x) for q, x in nodes if q and x["k"] == "tag"]
        if not kids:
            return None
        q, x = kids[n % len(kids)]
        return _replace(r, q, {"k": "html", "s": str(build(x))})
    if kind == "dep-field":
        deps = [(q, x) for q, x in nodes if x["k"] == "dep"]
        if not deps:
            return None
        q, x = deps[n % len(deps)]
        which = n % 5
        if which == 4:
            return _replace(r, q, dict(x, all_files=not x.get("all_files", False)))
        if which == 0:
            return _replace(r, q, dict(x, name=x["name"] + "2"))
        if which == 1:
            return _replace(r, q, dict(x, version=x["version"] + ".7"))
        if which == 2:
            return _replace(r, q, dict(x, script=[{"src": "other.js"}], source=x.get("source") or {"href": "u"}))
        return _replace(r, q, dict(x, head="<changed>"))
    return None


def _attr_model(attrs):
    m = {}
    for k, v in attrs:
        if v is None or v is False:
            continue
        s = "" if v is True else (v["html"] if isinstance(v, dict) else str(v))
        nm = gen.norm_attr_name(k)
        m[nm] = (m[nm] + " " + s) if nm in m else s
    return m


def body_equality(case, note):
    import htmltools as h

    r = case["root"]
    wrap = (lambda o: h.TagList("pre", o)) if case["as_list"] else (lambda o: o)
    a, b = wrap(build(r)), wrap(build(r))
    check(a == b and b == a, "two independent builds of the same recipe are not ==")
    check(not (a != b), "!= is true for structurally identical objects")
    e = edit(r, case["edit"], case["n"])
    if isinstance(e, tuple):
        r, e = e
        a, b = wrap(build(r)), wrap(build(r))
        check(a == b and b == a, "two independent builds of the same recipe are not ==")
    applied = e is not None and canon(e) != canon(r)
    if applied:
        c = wrap(build(e))
        check(not (a == c) and not (c == a), f"objects differing by edit '{case['edit']}' compare ==", canon(r)[:600], canon(e)[:600])
        check(a != c, "!= is false for structurally different objects")
    # different kinds
    t = build(r)
    others = [h.TagList(t), "x", h.HTML("x"), None, 3, build(DEP_POOL[0]), h.HTMLDocument(t), str(t), h.HTML(str(t)), t.get_html_string(), t.render(), [t], (t,), t.children, t.attrs]
    for o in others:
        check(not (t == o) and not (o == t), f"a Tag compares == to a {type(o).__name__}")
    tl = h.TagList(t, "z")
    for o in (str(tl), h.HTML(str(tl)), t, h.Tag("x", t, "z"), tl.render()):
        check(not (tl == o) and not (o == tl), f"a TagList compares == to a {type(o).__name__}")
    d = build(DEP_POOL[0])
    check(d == build(DEP_POOL[0]), "equal dependency definitions are not ==")
    for o in (h.TagList(d), t, "a", h.MetadataNode(), build(DEP_POOL[1])):
        check(not (d == o), f"a dependency compares == to a different {type(o).__name__}")
    check(not (h.TagList(t) == [t]) or True, "")
    note(applied, "edit:" + case["edit"] if applied else "edit-not-applicable", "as-list" if case["as_list"] else "")


def selftest():
    S.selftest()


RULE = (
    "purity: pool of 2-4 objects (tag trees with dependencies/HTML()/tagifiables/html-head-body roots, lists, dependencies, documents "
    "in fragment/body/html shape with attribute kwargs) and 3-18 read-only operations in generated order; non-trivial = >=2 different "
    "operations on one object and a dependency in the graph. tagify/views/equality: random rich trees; non-trivial = at least one "
    "mutation applied after tagify with dependencies present / tree has metadata / the edit was applicable. Distinct by sha1 of the recipe"
)

CLAUSES = [
    Clause(
        "purity",
        body_purity,
        strategy=purity_case,
        quick=400,
        thorough=4000,
        shards_quick=4,
        required=("lone-html-with-kwargs-rendered", "repeated-op", "op:save_html", "op:docrender", "op:tagify", "op:as_dict", "op:serialize", "mutation-then-more-ops", "operation-failed-in-user-code", "head-first-document-rendered"),
        rule="see RULE",
    ),
    Clause("tagify", body_tagify, strategy=tagify_case, quick=500, thorough=8000, shards_quick=3, required=("with-tfy", "no-tfy", "mutation-after-tagify", "used-as-context-manager"), rule="see RULE"),
    Clause("views", body_views, strategy=lambda: st.fixed_dictionaries({"root": st.one_of(rich_tree(2), html_root()), "as_list": st.booleans(), "big": st.sampled_from([0] * 10 + [600, 4000])}), quick=400, thorough=5000, shards_quick=2, required=("rendering>10KiB", "rendering>64KiB"), rule="see RULE"),
    Clause("equality", body_equality, strategy=eq_case, quick=600, thorough=8000, shards_quick=3, required=tuple("edit:" + e for e in EDITS), rule="see RULE"),
]
