"""C05 - no whitespace is ever injected into inline content.

contain : every maximal block-free subtree / sibling run appears as the exact flat
          concatenation, positioned at the run's first id marker            (Hypothesis, arbitrary nesting)
tokens  : every layout-whitespace token is adjacent to the open or close tag of a
          whitespace-enabled tag (content is whitespace-free, eol is whitespace)  (Hypothesis, arbitrary nesting)
triples : all (parent kind x previous sibling kind x current sibling kind) at two depths  (exhaustive)
"""

from __future__ import annotations

import itertools

from hypothesis import strategies as st

from hv import gen
from hv.build import build
from hv.core import Clause, check
from hv.oracle import layout as L
from hv.oracle import tokenizer as T

ASSUMPTIONS = [
    "flat() of the layout model gives 'the exact concatenation of open tags, content and close tags' for metacharacter-free content",
    "tokens clause: content and attribute values contain no whitespace and eol is a whitespace string, so every whitespace run in the output is layout",
    "for a Tag root the root's own leading indentation is removed first; for a TagList root start-of-string counts as a block boundary",
]

WS = set(" \t\r\n\f")
EOLS_ANY = ["\n", "\r\n", "", " ", "\t", "EOL", "<!---->"]
EOLS_WS = ["\n", "\r\n", "", " ", "\t", "\n\n"]


def _no_rawtext(nodes):
    """script/style content is raw text for the tokenizer: rename such tags in the tokens clause"""
    out = []
    for n in nodes:
        if n["k"] == "tag":
            n = dict(n, name="x-" + n["name"] if n["name"] in ("script", "style") else n["name"], kids=_no_rawtext(n["kids"]))
        out.append(n)
    return out


def _maybe_wrap(roots, wrap):
    """optionally the whole forest becomes the content of one document-level element given by the user"""
    if wrap is None:
        return roots
    return [{"k": "tag", "name": wrap[0], "ws": wrap[1], "attrs": [], "kids": roots}]


def _bulk(roots, n):
    """a long child list (size-triggered paths): the first tag's children repeated until there are more than n of them"""
    if not n:
        return roots
    for i, r in enumerate(roots):
        if r["k"] == "tag" and r["kids"]:
            kids = [k for k in r["kids"] if k["k"] != "tag" or not k["kids"]][:3] or [{"k": "text", "s": "x"}]
            reps = n // len(kids) + 1
            return roots[:i] + [dict(r, kids=kids * reps)] + roots[i + 1 :]
    return roots


def case_strategy(eols, blank, newlines=False, rawtext_ok=False):
    def f():
        return st.fixed_dictionaries(
            {
                "roots": st.builds(
                    lambda forest, wrap, bulk: _bulk(_maybe_wrap(forest, wrap), bulk),
                    gen.layout_forest(newlines=newlines, meta=1, spaces=newlines, blank=blank).map((lambda x: x) if rawtext_ok else _no_rawtext),
                    st.sampled_from([None, None, None, None, None, ("body", False), ("body", True), ("head", False), ("main", False)]),
                    st.sampled_from([0] * 40 + [501, 1030]),
                ).map(gen.number),
                "doc": st.booleans(),
                "indent": st.integers(0, 6),
                "eol": st.sampled_from(eols),
                "share": st.one_of(st.just(0), st.just(0), st.integers(1, 10**6)),
                "save": st.sampled_from([False, False, True]),
            }
        )

    return f


def _has_blank(n):
    return bool(n.get("blank")) or (n["k"] == "tag" and any(_has_blank(k) for k in n["kids"]))


def _has_raw(nodes):
    return any(n["k"] == "tag" and ((n["name"] in ("script", "style") and len(L.visible(n["kids"])) >= 2) or _has_raw(n["kids"])) for n in nodes)


def marker(n) -> str:
    if n["k"] == "tag":
        return "<" + n["name"] + ' data-n="%d"' % n["id"]
    return {"text": "t", "html": "h", "repr": "r"}[n["k"]] + "%d:" % n["id"]


def runs(nodes):
    """maximal runs of adjacent visible siblings none of which contains a block tag"""
    out, cur = [], []
    for n in nodes:
        if L.is_meta(n):
            continue
        if L.contains_block(n):
            if cur:
                out.append(cur)
            cur = []
        else:
            cur.append(n)
    if cur:
        out.append(cur)
    return out


def all_runs(nodes, acc):
    for r in runs(nodes):
        acc.append(r)
    for n in nodes:
        if n["k"] == "tag" and L.contains_block(n):
            all_runs(n["kids"], acc)
    return acc


def _id_counts(nodes, acc):
    for n in nodes:
        if "id" in n:
            acc[n["id"]] = acc.get(n["id"], 0) + 1
        if n["k"] == "tag":
            _id_counts(n["kids"], acc)
    return acc


def check_containment(out, roots, label):
    rs = all_runs(roots, [])
    occ = _id_counts(roots, {})
    forest_flat = "".join(L.flat(n) if not L.contains_block(n) else _flat_any(n) for n in roots)
    for r in rs:
        # blank leaves (empty / whitespace-only content) carry no id: anchor the run at its first marked node
        k = next((i for i, n in enumerate(r) if not n.get("blank")), None)
        if k is None:
            continue
        m = marker(r[k])
        c = out.count(m)
        want_c = occ.get(r[k]["id"], 1)
        # nested occurrences: a shared node inside a shared subtree multiplies; compare with the flat count of the whole forest
        total = forest_flat.count(m)
        check(c == total, f"{label}: marker {m!r} occurs {c} times, expected {total}", out)
        off = len("".join(L.flat(n) for n in r[:k]))
        exp = "".join(L.flat(n) for n in r)
        starts = []
        p = out.find(m)
        while p >= 0:
            starts.append(p - off)
            p = out.find(m, p + 1)
        ok = any(q >= 0 and out.startswith(exp, q) for q in starts)
        q0 = max(starts[0], 0) if starts else 0
        check(ok if want_c > 1 or c > 1 else (starts and starts[0] >= 0 and out.startswith(exp, starts[0])), f"{label}: inline run is not emitted as its exact flat concatenation", exp, out[q0 : q0 + len(exp) + 20], out)
    return rs


def _flat_any(n):
    """all markup of a subtree without layout whitespace (used only to count markers)"""
    if n["k"] != "tag":
        return L.flat(n)
    return L.open_tag(n) + ">" + "".join(_flat_any(c) for c in L.visible(n["kids"]))


def has_block_in_inline(n, inside=False):
    if n["k"] != "tag":
        return False
    if n["ws"] and inside:
        return True
    return any(has_block_in_inline(k, inside or not n["ws"]) for k in n["kids"])


def body_contain(case, note):
    import htmltools as h

    roots, indent, eol = case["roots"], case["indent"], case["eol"]
    shared = bool(case.get("share"))
    if shared:
        roots = gen.share_some(roots, case["share"])  # some children occur again as the very same object
    memo: dict = {}
    objs = [build(r, memo) for r in roots]
    out = h.TagList(*objs).get_html_string(indent, eol)
    rs = check_containment(out, roots, "TagList.get_html_string")
    check_containment(h.TagList(*objs).render()["html"], roots, "TagList.render()['html']")
    check_containment(str(h.TagList(*objs)), roots, "str(TagList)")
    for r, o in zip(roots, objs):
        if r["k"] == "tag":
            check_containment(o.get_html_string(indent, eol), [r], "Tag.get_html_string")
            if not L.contains_block(r):
                check(o.get_html_string(indent, eol) == "  " * indent + L.flat(r), "block-free tag is not rendered flat", L.flat(r), o.get_html_string(indent, eol))
                check(str(o) == L.flat(r), "str() of a block-free tag is not flat")
    # the saved file is an output too: the same runs must appear in it unchanged
    import locale

    saved = False
    if case.get("save") and locale.getpreferredencoding(False).lower().replace("-", "") == "utf8":
        import os
        import shutil
        import tempfile

        d = tempfile.mkdtemp(prefix="hv-c05-")
        try:
            f = os.path.join(d, "p.html")
            h.TagList(*objs).save_html(f)
            with open(f, encoding="utf-8", newline="") as fh:
                check_containment(fh.read(), roots, "save_html file")
            saved = True
        finally:
            shutil.rmtree(d, ignore_errors=True)
    # a complete document is an output too ("wherever the subtree is placed"); a user-supplied <html> root is modified
    # by document assembly (C11), every other content must appear in the document with its inline runs intact
    in_doc = False
    if case.get("doc") and not any(r["k"] == "tag" and r["name"] == "html" for r in roots):
        check_containment(h.HTMLDocument(*[build(r, {}) for r in roots]).render()["html"], roots, "HTMLDocument.render")
        in_doc = True
    any_block = any(L.contains_block(r) for r in roots)
    bii = any(has_block_in_inline(r) for r in roots)
    sole_inline_body = len(roots) == 1 and roots[0]["k"] == "tag" and roots[0]["name"] == "body" and not roots[0]["ws"]
    note(any_block and any(len(r) >= 2 for r in rs), "saved-file" if saved else "", "in-document" if in_doc else "", "in-document:sole-inline-body" if in_doc and sole_inline_body else "",
         "more-than-500-children" if any(r["k"] == "tag" and len(r["kids"]) > 500 for r in roots) else "",
         "raw-text-element-with-several-children" if _has_raw(roots) else "", "block-inside-inline" if bii else "", "run>=3" if any(len(r) >= 3 for r in rs) else "", "blank-leaf" if any(_has_blank(r) for r in roots) else "", "same-object-twice" if shared and memo else "")


# ---------------------------------------------------------------- token rule


def token_rule(out: str, roots, label: str, list_root: bool):
    """Every whitespace run must touch the open/close tag token of a block node."""
    block_ids = set()

    def coll(n):
        if n["k"] == "tag":
            if n["ws"]:
                block_ids.add(n["id"])
            for k in n["kids"]:
                coll(k)

    for r in roots:
        coll(r)
    toks = T.tokenize(out)
    # classify tag tokens: is it the open/close token of a block node?
    stack = []
    info = []  # per token: ("tag", is_block) or ("text", raw)
    for t in toks:
        if t.kind == "open":
            idv = dict(t.attrs).get("data-n")
            # tags without an id are markup inside HTML() / _repr_html_ content: inline content
            isb = idv is not None and idv.isdigit() and int(idv) in block_ids
            info.append(("tag", isb))
            if not t.selfclosing:
                stack.append(isb)
        elif t.kind == "close":
            check(bool(stack), f"{label}: unbalanced close tag", out)
            info.append(("tag", stack.pop()))
        elif t.kind == "text":
            info.append(("text", t.raw))
        else:
            check(False, f"{label}: unexpected token {t!r}", out)
    n = len(info)
    for i, (kind, val) in enumerate(info):
        if kind != "text":
            continue
        raw = val
        lead = len(raw) - len(raw.lstrip(" \t\r\n\f"))
        trail = len(raw) - len(raw.rstrip(" \t\r\n\f"))
        prev_block = (i == 0 and list_root) or (i > 0 and info[i - 1] == ("tag", True))
        next_block = i + 1 < n and info[i + 1] == ("tag", True)
        if lead == len(raw):
            check(prev_block or next_block, f"{label}: whitespace {raw!r} between non-block neighbours", out)
            continue
        core = raw[lead : len(raw) - trail]
        check(not (WS & set(core)), f"{label}: whitespace injected inside inline content {core!r}", out)
        if lead:
            check(prev_block, f"{label}: whitespace {raw[:lead]!r} before inline content not adjacent to a block tag", out)
        if trail:
            check(next_block, f"{label}: whitespace {raw[-trail:]!r} after inline content not adjacent to a block tag", out)


def body_tokens(case, note):
    import htmltools as h

    roots, indent, eol = case["roots"], case["indent"], case["eol"]
    objs = [build(r) for r in roots]
    out = h.TagList(*objs).get_html_string(indent, eol)
    token_rule(out, roots, "TagList.get_html_string", True)
    for r, o in zip(roots, objs):
        if r["k"] == "tag":
            s = o.get_html_string(indent, eol)
            pre = "  " * indent
            check(s.startswith(pre), "Tag root does not start with its own indentation", s)
            token_rule(s[len(pre) :], [r], "Tag.get_html_string", False)
    any_block = any(L.contains_block(r) for r in roots)
    bii = any(has_block_in_inline(r) for r in roots)
    note(any_block and any(len(r) >= 2 for r in all_runs(roots, [])), "block-inside-inline" if bii else "", "eol-empty" if eol == "" else "", "blank-leaf" if any(_has_blank(r) for r in roots) else "")


# ---------------------------------------------------------------- exhaustive sibling triples

KINDS = ["block", "inline", "void-block", "void-inline", "text", "html", "repr", "meta", "inline-with-block", "empty-text"]


def mk(kind, depth=0):
    t = {"k": "text", "s": "x"}
    if kind == "block":
        return {"k": "tag", "name": "div", "ws": True, "attrs": [], "kids": [t, {"k": "tag", "name": "b", "ws": False, "attrs": [], "kids": [t]}]}
    if kind == "inline":
        return {"k": "tag", "name": "span", "ws": False, "attrs": [], "kids": [t, {"k": "tag", "name": "i", "ws": False, "attrs": [], "kids": []}]}
    if kind == "void-block":
        return {"k": "tag", "name": "hr", "ws": True, "attrs": [], "kids": []}
    if kind == "void-inline":
        return {"k": "tag", "name": "br", "ws": False, "attrs": [], "kids": []}
    if kind == "text":
        return t
    if kind == "html":
        return {"k": "html", "s": "<i>y</i>"}
    if kind == "repr":
        return {"k": "repr", "s": "<u>z</u>"}
    if kind == "meta":
        return {"k": "meta"}
    if kind == "empty-text":
        return {"k": "text", "s": "", "blank": True}
    if kind == "inline-with-block":
        return {"k": "tag", "name": "a", "ws": False, "attrs": [], "kids": [t, {"k": "tag", "name": "p", "ws": True, "attrs": [], "kids": [t, t]}, t]}
    raise ValueError(kind)


def enum_triples(tier):
    for parent in ("block", "inline", "list"):
        for a, b, c in itertools.product(KINDS, KINDS, KINDS):
            for outer in (None, "block", "inline"):
                yield {"parent": parent, "sibs": [a, b, c], "outer": outer}


def body_triples(case, note):
    sibs = [mk(k) for k in case["sibs"]]
    if case["parent"] == "list":
        roots = sibs
    else:
        roots = [{"k": "tag", "name": "section" if case["parent"] == "block" else "em", "ws": case["parent"] == "block", "attrs": [], "kids": sibs}]
    if case["outer"]:
        roots = [{"k": "tag", "name": "main" if case["outer"] == "block" else "q", "ws": case["outer"] == "block", "attrs": [], "kids": [{"k": "text", "s": "o"}] + roots}]
    roots = gen.number(roots)
    for indent, eol in ((0, "\n"), (2, "\n"), (1, ""), (1, " ")):
        sub = {"roots": roots, "indent": indent, "eol": eol}
        body_contain(sub, lambda *a: None)
        body_tokens(sub, lambda *a: None)
    note(True, "parent:" + case["parent"])


def selftest():
    T.selftest()
    L.selftest()


RULE = (
    "arbitrarily nested trees (including block-inside-inline) over block/inline/void tags, text, HTML(), _repr_html_ objects and "
    "metadata, every visible node id-tagged; non-trivial = at least one whitespace-enabled tag and one inline run of >=2 siblings; "
    "class 'block-inside-inline' required; triples: complete enumeration of 3 parents x 10^3 sibling kinds x 3 outer contexts"
)

CLAUSES = [
    Clause("contain", body_contain, strategy=case_strategy(EOLS_ANY, ("", " ", "\t", "\xa0", "  ", "\n", "\n ", "\r\n"), newlines=True, rawtext_ok=True), quick=800, thorough=12000, shards_quick=3, required=("block-inside-inline", "blank-leaf", "same-object-twice", "saved-file", "in-document", "in-document:sole-inline-body", "more-than-500-children", "raw-text-element-with-several-children"), rule="see RULE"),
    Clause("tokens", body_tokens, strategy=case_strategy(EOLS_WS, ("",)), quick=800, thorough=12000, shards_quick=3, required=("block-inside-inline", "eol-empty", "blank-leaf"), rule="see RULE"),
    Clause("triples", body_triples, source="enum", enum=enum_triples, shards_quick=4, shards_thorough=8, rule="every case"),
]
