"""C14 - child lists hold only normalised nodes after any sequence of operations (model-based history)."""

from __future__ import annotations

import sys

from hypothesis import strategies as st

from hv import gen
from hv.build import build
from hv.core import Clause, check

ASSUMPTIONS = [
    "the model is a Python list and the harness's own depth-first flatten (lists/tuples/TagLists spliced, None dropped, numbers -> str(x), strings kept whole)",
    "booleans are not generated as children (whether a bool counts as a number is not stated)",
    "a bare HTML() passed *as the iterable* to extend/+ and item/slice assignment are outside the statement",
]

BAD = ["dict", "set", "bytes", "object", "complex", "module", "frozenset", "generator", "iterator", "range", "map", "dict_keys", "bytearray", "memoryview", "deque", "function", "type", "exception"]


def mk_bad(t):
    import collections

    return {
        "dict": lambda: {"a": 1}, "set": lambda: {1}, "bytes": lambda: b"x", "object": object, "complex": lambda: 1j, "module": lambda: sys, "frozenset": frozenset,
        "generator": lambda: (x for x in ["g1", "g2"]), "iterator": lambda: iter(["i1"]), "range": lambda: range(3), "map": lambda: map(str, [1, 2]), "dict_keys": lambda: {"k": 1}.keys(),
        "bytearray": lambda: bytearray(b"ba"), "memoryview": lambda: memoryview(b"mv"), "deque": lambda: collections.deque(["d"]), "function": lambda: len, "type": lambda: int, "exception": lambda: ValueError("e"),
    }[t]()


class _Row(tuple):
    """a tuple subclass (what a NamedTuple / namedtuple row is)"""


class _Items(list):
    """a list subclass (a user's own collection type)"""


def build_arg(r):
    import htmltools as h

    k = r["k"]
    if k == "bad":
        return mk_bad(r["t"])
    if k == "list":
        items = [build_arg(x) for x in r["kids"]]
        t = r.get("t", "list")
        if t == "tuple":
            return tuple(items)
        if t == "taglist":
            return h.TagList(*items)
        if t == "tuplesub":
            return _Row(items)
        if t == "listsub":
            return _Items(items)
        return items
    return build(r)


def contains_bad(r) -> bool:
    if r["k"] == "bad":
        return True
    if r["k"] == "list":
        return any(contains_bad(x) for x in r["kids"])
    return False


def depth(r) -> int:
    if r["k"] == "list":
        return 1 + max([depth(x) for x in r["kids"]] + [0])
    return 0


def scalars(bad_ok=True):
    good = [
        st.builds(lambda s: {"k": "text", "s": s}, st.one_of(gen.safe_text(0, 3), st.sampled_from(["", "ab", "<b>"]))),
        st.builds(lambda s: {"k": "text", "s": s}, gen.safe_text(0, 3)),
        st.builds(lambda s: {"k": "text", "s": s, "sub": True}, st.sampled_from(["red", "", "a b", "<i>"])),  # str-subclass instances (enum members): kept as they are
        st.builds(lambda v: {"k": "num", "v": v}, st.one_of(st.integers(-5, 50), st.sampled_from([0, 1, 2.5, -0.0, 0.0, 1.0, 2.0, -1.0, 1e21, 10**20, 1e2, 100]))),
        st.just({"k": "none"}),
        st.just({"k": "html", "s": "<i>h</i>"}),
        st.sampled_from(
            [
                {"k": "tag", "name": "span", "ws": False, "attrs": [], "kids": [{"k": "text", "s": "in"}]},
                {"k": "tag", "name": "div", "ws": True, "attrs": [["id", "d"]], "kids": []},
                {"k": "dep", "name": "d", "version": "1.0"},
                {"k": "meta"},
                {"k": "repr", "s": "<u>r</u>"},
                {"k": "tfy", "res": {"k": "text", "s": "x"}},
            ]
        ),
    ]
    if bad_ok:
        good.append(st.builds(lambda t: {"k": "bad", "t": t}, st.sampled_from(BAD + ["dict", "dict", "dict", "set", "bytes", "generator", "object"])))
    return gen.opaque(st.one_of(*good))


def args(bad_ok=True):
    sc = scalars(bad_ok)

    def lst(ch):
        return st.builds(lambda t, k: {"k": "list", "t": t, "kids": k}, st.sampled_from(["list", "tuple", "taglist", "list", "tuple", "taglist", "tuplesub", "listsub"]), st.lists(ch, max_size=3))

    def nest(x, levels, kinds):
        for i in range(levels):
            x = {"k": "list", "t": kinds[i % len(kinds)], "kids": [x] if i % 5 else [{"k": "none"}, x]}
        return x

    # containers nested far deeper than anyone writes by hand (17 .. 60 levels)
    deep = st.builds(nest, sc, st.integers(12, 60), st.lists(st.sampled_from(["list", "tuple", "list", "tuplesub"]), min_size=1, max_size=3))
    n = st.one_of(sc, lst(sc))
    n = st.one_of(sc, sc, lst(n))
    return st.one_of(sc, sc, sc, sc, lst(n), lst(n), deep)


def taglist_safe(r):
    """a TagList cannot be *built* around an invalid object: turn such TagLists into plain lists"""
    if r["k"] == "list":
        kids = [taglist_safe(x) for x in r["kids"]]
        t = r["t"]
        if t == "taglist" and any(contains_bad(x) for x in kids):
            t = "list"
        return dict(r, t=t, kids=kids)
    return r


def op_strategy():
    a = args().map(taglist_safe)
    many = st.lists(a, min_size=0, max_size=3)
    return st.one_of(
        st.tuples(st.just("new"), many).map(list),
        st.tuples(st.just("append"), st.lists(a, min_size=1, max_size=3)).map(list),
        st.tuples(st.just("extend"), many, st.sampled_from(["list", "tuple", "gen", "taglist"])).map(list),
        st.tuples(st.just("extend_str"), gen.safe_text(0, 4)).map(list),
        st.tuples(st.just("insert"), st.integers(-8, 8), a).map(list),
        st.tuples(st.just("add"), many, st.sampled_from(["list", "tuple", "taglist"])).map(list),
        st.tuples(st.just("radd"), many, st.sampled_from(["list", "tuple"])).map(list),
        st.tuples(st.just("add_str"), gen.safe_text(0, 4), st.booleans()).map(list),
        st.tuples(st.just("iadd"), many, st.sampled_from(["list", "tuple", "taglist"])).map(list),
        st.tuples(st.just("iadd_str"), gen.safe_text(0, 4)).map(list),
        st.tuples(st.just("slice"), st.integers(-6, 6) | st.none(), st.integers(-6, 6) | st.none(), st.sampled_from([None, 1, 2, -1])).map(list),
        st.tuples(st.just("mul"), st.integers(0, 3), st.booleans()).map(list),
        st.tuples(st.just("shared"), st.lists(args(bad_ok=False), min_size=1, max_size=3), st.sampled_from(["append", "extend", "new", "add"]), st.sampled_from(["list", "taglist"])).map(list),
    )


def case_strategy():
    return st.fixed_dictionaries({"tag_name": st.sampled_from(["div", "div", "span", "br", "input", "script", "x-el"]), "on_tag": st.booleans(), "start": st.lists(args(bad_ok=False), max_size=3), "ops": st.lists(op_strategy(), min_size=1, max_size=10)})


# ---------------------------------------------------------------- model


def is_valid_node(x) -> bool:
    import htmltools as h

    if isinstance(x, (str, h.HTML, h.Tag, h.MetadataNode)):
        return True
    return hasattr(x, "tagify") or hasattr(x, "_repr_html_")


class Invalid(Exception):
    pass


def flatten(items, out):
    """depth-first, left-to-right; raises Invalid for an unsupported object at any depth"""
    import htmltools as h

    for x in items:
        if isinstance(x, (list, tuple, h.TagList)):
            flatten(list(x), out)
        elif x is None:
            continue
        elif isinstance(x, (int, float)) and not isinstance(x, bool):
            out.append(("text", str(x)))
        elif isinstance(x, str) and type(x) is str:
            out.append(("text", x))
        elif is_valid_node(x):
            out.append(("obj", x))
        else:
            raise Invalid(type(x).__name__)
    return out


def same(real_list, model, label):
    check(len(real_list) == len(model), f"{label}: children are not the flattening of the supplied arguments (length {len(real_list)} vs {len(model)})", [repr(x)[:40] for x in real_list], [m[1] if m[0] == "text" else type(m[1]).__name__ for m in model])
    for i, (r, m) in enumerate(zip(real_list, model)):
        if m[0] == "text":
            check(type(r) is str and r == m[1], f"{label}: element {i} should be the text {m[1]!r}", repr(r)[:80])
        else:
            check(r is m[1], f"{label}: element {i} is not the supplied object", repr(r)[:80])


def all_children(a, out):
    """every argument and nested element of an accepted argument"""
    import htmltools as h

    out.append(a)
    if isinstance(a, (list, tuple, h.TagList)):
        for x in a:
            all_children(x, out)
    return out


def body(case, note):
    import htmltools as h

    start = [build_arg(r) for r in case["start"]]
    if case["on_tag"]:
        tag = h.Tag(case.get("tag_name", "div"), *start, id="t")
        real = tag.children
        check(isinstance(real, h.TagList), "Tag.children is not a TagList")
    else:
        tag = None
        real = h.TagList(*start)
    model = flatten(start, [])
    same(list(real), model, "constructor")
    n_mut = 0
    failed_then_ok = False
    had_fail = False
    deep = False
    classes = set()
    for op in case["ops"]:
        name = op[0]
        before = list(real)
        accepted_args = []
        try:
            expect_invalid = False
            new_model = None
            result_obj = None
            if name in ("new", "append", "extend", "add", "radd", "iadd"):
                recs = op[1]
                objs = [build_arg(r) for r in recs]
                expect_invalid = any(contains_bad(r) for r in recs)
                deep = deep or any(depth(r) >= 2 for r in recs)
                try:
                    flat = flatten(objs, [])
                except Invalid:
                    flat = None
                check((flat is None) == expect_invalid, "harness: model/recipe disagree about validity")
                accepted_args = objs
            if name == "new":
                if tag is not None and any(r["k"] == "bad" and r["t"] == "dict" for r in recs):
                    continue  # a top-level dict is an attribute dict for the Tag constructor
                if tag is not None:
                    act = lambda: h.Tag(case.get("tag_name", "div"), *[o for o in objs], id="t")
                else:
                    act = lambda: h.TagList(*objs)
                if expect_invalid:
                    _expect_type_error(act, "constructor")
                else:
                    x = act()
                    if tag is not None:
                        tag = x
                        real = tag.children
                    else:
                        real = x
                    model = flat
                    same(list(real), model, "constructor")
                    n_mut += 1
                    before = None
            elif name == "append":
                act = (lambda: tag.append(*objs)) if tag is not None else (lambda: real.append(*objs))
                new_model = None if expect_invalid else model + flat
            elif name == "extend":
                kind = op[2]
                if kind == "tuple":
                    it = tuple(objs)
                elif kind == "gen":
                    it = (o for o in objs)
                elif kind == "taglist" and not expect_invalid:
                    it = h.TagList(*objs)
                else:
                    it = list(objs)
                act = (lambda: tag.extend(it)) if tag is not None else (lambda: real.extend(it))
                new_model = None if expect_invalid else model + flat
            elif name == "extend_str":
                s = op[1]
                act = (lambda: tag.extend(s)) if tag is not None else (lambda: real.extend(s))
                new_model = model + [("text", s)]
                accepted_args = [s]
            elif name == "iadd_str":
                s = op[1]
                new_model = model + [("text", s)]
                accepted_args = [s]

                def act():
                    nonlocal real
                    r0 = real
                    r0 += s
                    check(r0 is real, "+= rebound the list to a different object")

            elif name == "insert":
                rec = op[2]
                obj = build_arg(rec)
                expect_invalid = contains_bad(rec)
                deep = deep or depth(rec) >= 2
                i = op[1]
                act = (lambda: tag.insert(i, obj)) if tag is not None else (lambda: real.insert(i, obj))
                if not expect_invalid:
                    m2 = list(model)
                    m2[i:i] = flatten([obj], [])
                    new_model = m2
                accepted_args = [obj]
            elif name in ("add", "radd"):
                kind = op[2]
                seq = tuple(objs) if kind == "tuple" else (h.TagList(*objs) if kind == "taglist" and not expect_invalid else list(objs))
                f = (lambda: real + seq) if name == "add" else (lambda: seq + real)
                if expect_invalid:
                    _expect_type_error(f, name)
                else:
                    res = f()
                    check(isinstance(res, h.TagList) and res is not real, f"{name} did not return a new TagList")
                    same(list(res), (model + flat) if name == "add" else (flat + model), name)
                    _all_nodes(res, name)
                same(list(real), model, f"{name} (operand must stay unchanged)")
                classes.add("op:" + name)
                if expect_invalid:
                    had_fail = True
                continue
            elif name == "add_str":
                s, left = op[1], op[2]
                res = (s + real) if left else (real + s)
                check(isinstance(res, h.TagList), "str + TagList is not a TagList")
                same(list(res), ([("text", s)] + model) if left else (model + [("text", s)]), "add_str")
                same(list(real), model, "add_str (operand must stay unchanged)")
                classes.add("op:add_str")
                continue
            elif name == "iadd":
                kind = op[2]
                seq = tuple(objs) if kind == "tuple" else (h.TagList(*objs) if kind == "taglist" and not expect_invalid else list(objs))
                new_model = None if expect_invalid else model + flat

                def act():
                    nonlocal real
                    r0 = real
                    r0 += seq
                    check(r0 is real, "+= rebound the list to a different object")

            elif name == "slice":
                sl = slice(op[1], op[2], op[3])
                res = real[sl]
                check(isinstance(res, h.TagList), "slicing did not return a TagList", type(res).__name__)
                same(list(res), model[sl], "slice")
                same(list(real), model, "slice (operand must stay unchanged)")
                classes.add("op:slice")
                continue
            elif name == "shared":
                # one container object occurring several times in the arguments of a single call
                import htmltools as _h

                inner = [build_arg(r) for r in op[1]]
                box = _h.TagList(*inner) if op[3] == "taglist" else list(inner)
                argv = [box, "sep", (box, [box])]
                flat = flatten(argv, [])
                how = op[2]
                if how == "new":
                    res = h.TagList(*argv)
                    same(list(res), flat, "constructor with a shared container")
                elif how == "add":
                    res = real + argv
                    same(list(res), model + flat, "+ with a shared container")
                else:
                    if how == "append":
                        (tag.append if tag is not None else real.append)(*argv)
                    else:
                        (tag.extend if tag is not None else real.extend)(argv)
                    model = model + flat
                    same(list(real), model, how + " with a shared container")
                    n_mut += 1
                classes.add("op:shared")
                continue
            elif name == "mul":
                n, left = op[1], op[2]
                res = (n * real) if left else (real * n)
                check(isinstance(res, h.TagList), "repetition did not return a TagList")
                same(list(res), model * n, "mul")
                same(list(real), model, "mul (operand must stay unchanged)")
                classes.add("op:mul")
                continue
            if name == "new":
                classes.add("op:new")
                if expect_invalid:
                    had_fail = True
                continue
            # mutating operation with possible failure
            if new_model is None:
                _expect_type_error(act, name)
                now = list(real)
                check(len(now) == len(before) and all(a is b for a, b in zip(now, before)), f"{name} with an unsupported argument changed the list", [repr(x)[:30] for x in before], [repr(x)[:30] for x in now])
                had_fail = True
                classes.add("rejected:" + name)
            else:
                r = act()
                model = new_model
                same(list(real), model, name)
                n_mut += 1
                if had_fail:
                    failed_then_ok = True
                classes.add("op:" + name)
                for a in accepted_args:
                    for c in all_children(a, []):
                        check(h.is_tag_child(c), f"is_tag_child rejects a value that {name} accepted", repr(c)[:60], type(c).__name__)
        finally:
            pass
        _all_nodes(real, name)
        if tag is not None:
            check(tag.children is real, "Tag.children was replaced by a different list object")
    # at the end of every history: calls that mix supported arguments with one unsupported object, in every position
    for badobj in ({"class": "x"}, {1}, b"b", object()):
        for form in ("append-first", "append-last", "extend", "insert"):
            before = list(real)
            attrs_before = dict(tag.attrs) if tag is not None else None
            target = tag if tag is not None else real
            try:
                if form == "append-first":
                    target.append(badobj, "ok")
                elif form == "append-last":
                    target.append("ok", badobj)
                elif form == "extend":
                    target.extend(["ok", [badobj]])
                else:
                    target.insert(0, ["ok", badobj])
                raised = False
            except TypeError:
                raised = True
            check(raised, f"{form} with a supported and an unsupported ({type(badobj).__name__}) argument did not raise TypeError")
            now = list(real)
            check(len(now) == len(before) and all(a is b for a, b in zip(now, before)), f"{form} with an unsupported ({type(badobj).__name__}) argument changed the list")
            if tag is not None:
                check(dict(tag.attrs) == attrs_before, f"{form} with an unsupported ({type(badobj).__name__}) argument changed the tag's attributes")
    import json as _json

    blob = _json.dumps(case, default=str)
    note(n_mut >= 3 and deep and failed_then_ok, *sorted(classes), "on-tag" if case["on_tag"] else "on-list", "container-subclass" if '"tuplesub"' in blob or '"listsub"' in blob else "")


def _all_nodes(tl, label):
    import htmltools as h

    for i, x in enumerate(tl):
        check(h.is_tag_node(x), f"{label}: stored element {i} is not a tag node", repr(x)[:60])
        check(not isinstance(x, (list, tuple, h.TagList, int, float)) and x is not None, f"{label}: stored element {i} was not normalised", repr(x)[:60])


def _expect_type_error(f, label):
    try:
        f()
    except TypeError:
        return
    except Exception as e:  # noqa
        check(False, f"{label} with an unsupported argument raised {type(e).__name__} instead of TypeError: {e}")
    check(False, f"{label} accepted an argument of unsupported type")


def body_is_child(case, note):
    """is_tag_child accepts every value the child operations accept (plain @given over single values)."""
    import htmltools as h

    rec = case["arg"]
    obj = build_arg(rec)
    try:
        h.TagList(obj)
        accepted = True
    except TypeError:
        accepted = False
    check(accepted == (not contains_bad(rec)), "TagList() acceptance differs from 'contains an object of unsupported type'", rec)
    if accepted:
        check(h.is_tag_child(obj), "is_tag_child rejects a value that TagList() accepts", repr(obj)[:80], type(obj).__name__)
        for c in all_children(obj, []):
            check(h.is_tag_child(c), "is_tag_child rejects a nested value that TagList() accepts", repr(c)[:80], type(c).__name__)
    # booleans: whatever the child operations do with them, is_tag_child must not be stricter
    for bval in (True, False):
        for wrap_ in (lambda x: x, lambda x: [x], lambda x: (None, [x])):
            try:
                h.TagList(wrap_(bval))
                ok_b = True
            except TypeError:
                ok_b = False
            if ok_b:
                check(h.is_tag_child(wrap_(bval)) and h.is_tag_child(bval), "is_tag_child rejects a boolean that TagList() accepts", bval)
    kinds = set()

    def walk(r):
        kinds.add("kind:" + r["k"] + (":" + type(r.get("v")).__name__ if r["k"] == "num" else ""))
        for x in r.get("kids", []) if r["k"] == "list" else []:
            walk(x)

    walk(rec)
    note(True, *sorted(kinds), "accepted" if accepted else "rejected", "nested>=17-levels" if depth(rec) >= 17 and accepted else "")


RULE = (
    "histories of 1-10 operations (construction, append, extend with list/tuple/generator/TagList/bare str, insert at -8..8, +, reflected +, "
    "+=, slicing, repetition) on a TagList or on a Tag's children, arguments = scalars (str, HTML, int, float, None, Tag, dependency, "
    "_repr_html_ / tagify objects) in arbitrarily nested lists/tuples/TagLists with invalid objects (dict, set, bytes, object(), complex, "
    "module) planted at any depth; non-trivial = >=3 mutating operations, one argument nested >=2 deep, and a rejected operation "
    "followed by a successful one; distinct by sha1 of the recipe"
)

CLAUSES = [
    Clause(
        "history",
        body,
        strategy=case_strategy,
        quick=800,
        thorough=12000,
        shards_quick=4,
        required=("op:append", "op:extend", "op:insert", "op:add", "op:radd", "op:iadd", "op:iadd_str", "op:slice", "op:mul", "op:extend_str", "op:shared", "rejected:insert", "rejected:iadd", "on-tag", "on-list", "container-subclass"),
        rule="see RULE",
    ),
    Clause("is-child", body_is_child, strategy=lambda: st.fixed_dictionaries({"arg": args().map(taglist_safe)}), quick=600, thorough=5000, shards_quick=1, shards_thorough=4, required=("kind:num:int", "kind:num:float", "rejected", "nested>=17-levels"), rule="every case"),
]
