"""C01 - rendered markup parses back to the same element tree (round-trip through tokenizer T)."""

from __future__ import annotations

from hypothesis import strategies as st

from hv import gen
from hv.build import build
from hv.core import Clause, check
from hv.oracle import tokenizer as T

ASSUMPTIONS = [
    "T is an HTML5-style *tokenizer* written for this harness (no tree construction, no RCDATA for title/textarea, no CR/LF normalisation)",
    "eol arguments are whitespace strings, as the statement's 'up to whitespace at the ends of the run' presupposes",
    "script/style elements are generated childless or with one metacharacter-free text (their content is trusted by design, C04)",
    "expected attribute values are the values stored in tag.attrs (normalisation itself is C15)",
]

WS_STRIP = " \t\r\n\f"
EOLS = ["\n", "\r\n", "", " ", "\t", "\n\n"]
RAW = ("script", "style")
META = set("&<>\"'")


def _safe(s: str) -> str:
    return "".join(c for c in s if c.isalnum() and ord(c) < 128)


def _fix_name(n: str) -> str:
    if n.lower() in gen.VOID:
        return n.lower()
    return n


def _mk(name, ws, attrs, kids):
    if name.lower() in RAW:
        texts = [k for k in kids if k["k"] == "text"]
        kids = [{"k": "text", "s": _safe(texts[0]["s"])}] if texts else []
    return {"k": "tag", "name": name, "ws": ws, "attrs": attrs, "kids": kids}


def attr_values():
    long_ = st.builds(lambda s, k: (s or "v") * k, gen.safe_text(1, 6), st.integers(10, 40))  # wide opening tags
    return st.one_of(gen.any_text(), gen.any_text(), gen.numbers(), st.just(True), st.sampled_from(["", " ", "a b"]), long_)


def element_strategy():
    names = st.one_of(
        st.sampled_from(gen.catalogue_names() + ["command", "keygen"]),
        st.sampled_from(list(gen.VOID)),
        st.sampled_from(gen.BLOCK_NAMES + gen.INLINE_NAMES),
        st.sampled_from(gen.RAWISH_NAMES),
        gen.CUSTOM_NAME.map(_fix_name),
    )
    attrs = st.lists(st.tuples(gen.attr_raw_names(), attr_values()).map(list), max_size=4)
    text = st.builds(lambda s: {"k": "text", "s": s}, gen.any_text())
    num = st.builds(lambda v: {"k": "num", "v": v}, gen.numbers())
    leaf = st.one_of(text, text, num)

    def elem(children):
        return st.builds(_mk, names, st.booleans(), attrs, st.lists(children, max_size=5))

    return st.recursive(elem(leaf), lambda inner: elem(st.one_of(leaf, inner, inner)), max_leaves=14)


def case_strategy():
    return st.fixed_dictionaries(
        {
            "roots": st.lists(element_strategy(), min_size=1, max_size=2),
            "indent": st.integers(0, 5),
            "eol": st.sampled_from(EOLS),
            # history: the strings of this tree were rendered earlier in this process in the *other* role
            # (attribute values as text children and the other way round)
            # ... or earlier renderings in this process raised half way (inside raw-text and ordinary elements)
            "prior": st.sampled_from([False, False, "roles", "failed", "both"]),
            # some children occur again later in the same child list as the very same object
            "share": st.one_of(st.just(0), st.just(0), st.integers(1, 10**6)),
            "edits": st.lists(
                st.one_of(
                    st.tuples(st.sampled_from(["pop", "del", "popitem", "clear"]), st.integers(0, 5)).map(list),
                    st.tuples(st.just("set"), gen.attr_raw_names(), attr_values()).map(list),
                    st.tuples(st.just("append"), gen.any_text()).map(list),
                    st.tuples(st.just("remove_class"), st.sampled_from(["a", "b"])).map(list),
                ),
                max_size=3,
            ),
        }
    )


# ------------------------------------------------------------------ oracle


def expected_events(r, obj, out):
    """Walk recipe r and built object obj in parallel, appending expected events to out."""
    import htmltools

    if r["k"] == "text":
        out.append(("text", r["s"]))
        return
    if r["k"] == "num":
        out.append(("text", str(r["v"])))
        return
    assert r["k"] == "tag"
    check(isinstance(obj, htmltools.Tag), "built object is not a Tag")
    attrs = [(k, str(v)) for k, v in obj.attrs.items()]
    kids = r["kids"]
    check(len(obj.children) == len(kids), "child count differs from the constructor arguments", len(obj.children), len(kids))
    if not kids and r["name"] in gen.VOID:
        out.append(("open", r["name"], attrs, True))
        return
    out.append(("open", r["name"], attrs, False))
    for kr, ko in zip(kids, obj.children):
        expected_events(kr, ko, out)
    out.append(("close", r["name"]))


def normalise_expected(ev):
    res = []
    for e in ev:
        if e[0] == "text" and res and res[-1][0] == "text":
            res[-1] = ("text", res[-1][1] + e[1])
        else:
            res.append(e)
    out = []
    for e in res:
        if e[0] == "text":
            s = e[1].strip(WS_STRIP)
            if s:
                out.append(("text", s))
        else:
            out.append(e)
    return out


def actual_events(html: str):
    out = []
    for t in T.tokenize(html):
        if t.kind == "text":
            s = t.data.strip(WS_STRIP)
            if s:
                out.append(("text", s))
        elif t.kind == "open":
            out.append(("open", t.name, [(k, "" if v is None else v) for k, v in t.attrs], t.selfclosing))
        elif t.kind == "close":
            out.append(("close", t.name))
        else:
            out.append((t.kind, t.raw))
    return out


def compare(label, html, expected):
    act = actual_events(html)
    if act != expected:
        i = 0
        while i < min(len(act), len(expected)) and act[i] == expected[i]:
            i += 1
        check(
            False,
            f"{label}: token stream differs from the tree at event #{i}",
            "expected " + repr(expected[i] if i < len(expected) else "<end>"),
            "got " + repr(act[i] if i < len(act) else "<end>"),
            html,
        )


def _stats(r, depth=1):
    n, void, meta_attr, meta_text, d = 0, False, False, False, depth
    if r["k"] == "tag":
        n = 1
        void = r["name"] in gen.VOID
        for a in r["attrs"]:
            if isinstance(a[1], str) and META & set(a[1]):
                meta_attr = True
        for k in r["kids"]:
            n2, v2, ma2, mt2, d2 = _stats(k, depth + 1)
            n += n2
            void |= v2
            meta_attr |= ma2
            meta_text |= mt2
            d = max(d, d2)
    elif r["k"] == "text":
        meta_text = bool(META & set(r["s"]))
        d = depth - 1
    else:
        d = depth - 1
    return n, void, meta_attr, meta_text, d


def _strings(nodes, out):
    for n in nodes:
        if n["k"] == "tag":
            for a in n["attrs"]:
                if isinstance(a[1], str):
                    out.append((a[1], "attr"))
            _strings(n["kids"], out)
        elif n["k"] == "text":
            out.append((n["s"], "text"))
    return out


def body_tree(case, note):
    import htmltools

    roots = case["roots"]
    indent, eol = case["indent"], case["eol"]
    prior = case.get("prior")
    prior = "roles" if prior is True else prior
    if prior in ("failed", "both"):
        from hv.build import Tfy

        class _Boom:
            def _repr_html_(self):
                raise ValueError("user code failed while rendering")

        for nm in ("script", "style", "div", "span"):
            for kids in ((Tfy({"k": "text", "s": "z"}), "a<b"), ("x", htmltools.Tag("p", "y", _Boom())), (htmltools.Tag("b", Tfy({"k": "text", "s": "z"})),)):
                try:
                    htmltools.Tag(nm, *kids).get_html_string(indent, eol)
                except (RuntimeError, ValueError):
                    pass
    if prior in ("roles", "both"):
        for v, role in _strings(roots, []):
            if role == "attr":
                htmltools.Tag("p", v).get_html_string()
                htmltools.Tag("p", v, "x").get_html_string()
                htmltools.html_escape(v)
            else:
                htmltools.Tag("p", title=v).get_html_string()
                htmltools.html_escape(v, attr=True)
    if prior in ("failed", "both"):
        from hv.history import failed_operations

        failed_operations(indent, eol, key=case["roots"])
    if case.get("share"):
        roots = gen.share_some(roots, case["share"])
    memo: dict = {}
    objs = [build(r, memo) for r in roots]
    exp_each = []
    for r, o in zip(roots, objs):
        ev = []
        expected_events(r, o, ev)
        exp_each.append(ev)
    tag = objs[0]
    e0 = normalise_expected(exp_each[0])
    compare("Tag.get_html_string(%d,%r)" % (indent, eol), tag.get_html_string(indent, eol), e0)
    compare("str(tag)", str(tag), e0)
    compare("Tag.render()['html']", tag.render()["html"], e0)
    eall = normalise_expected([e for ev in exp_each for e in ev])
    tl = htmltools.TagList(*objs)
    compare("TagList.get_html_string(%d,%r)" % (indent, eol), tl.get_html_string(indent, eol), eall)
    # the same tag object rendered again after attribute removals / additions and a new child
    r0 = roots[0]
    edited = False
    for ed in case.get("edits", []):
        names = list(tag.attrs.keys())
        if ed[0] in ("pop", "del") and names:
            k = names[ed[1] % len(names)]
            if ed[0] == "pop":
                tag.attrs.pop(k)
            else:
                del tag.attrs[k]
        elif ed[0] == "popitem" and names:
            tag.attrs.popitem()
        elif ed[0] == "clear":
            tag.attrs.clear()
        elif ed[0] == "set":
            tag.attrs[ed[1]] = ed[2]
        elif ed[0] == "remove_class":
            tag.remove_class(ed[1])
        elif ed[0] == "append" and r0["name"].lower() not in RAW:
            tag.append(ed[1])
            r0 = dict(r0, kids=r0["kids"] + [{"k": "text", "s": ed[1]}])
        else:
            continue
        edited = True
        ev = []
        expected_events(r0, tag, ev)
        compare("Tag.get_html_string after %s" % ed[0], tag.get_html_string(indent, eol), normalise_expected(ev))
        compare("str(tag) after %s" % ed[0], str(tag), normalise_expected(ev))
    n = void = ma = mt = d = 0
    for r in roots:
        s = _stats(r)
        n += s[0]
        void |= s[1]
        ma |= s[2]
        mt |= s[3]
        d = max(d, s[4])
    note(
        n >= 2 and (void or ma or mt or d >= 3),
        "void" if void else "",
        "attr-metachar" if ma else "",
        "text-metachar" if mt else "",
        "depth>=3" if d >= 3 else "",
        "multi-root" if len(roots) > 1 else "",
        "re-rendered-after-edit" if edited else "",
        "strings-rendered-earlier-in-the-other-role" if prior in ("roles", "both") and (ma or mt) else "",
        "earlier-rendering-raised" if prior in ("failed", "both") and mt else "",
        "same-object-twice" if memo else "",
    )


# ------------------------------------------------------------------ exhaustive catalogue pass

SHAPES = {
    "empty": [],
    "text": [{"k": "text", "s": "t<&>"}],
    "elem": [{"k": "tag", "name": "span", "ws": False, "attrs": [], "kids": []}],
    "text+elem": [{"k": "text", "s": "a"}, {"k": "tag", "name": "div", "ws": True, "attrs": [], "kids": []}],
    "elem+text+elem": [
        {"k": "tag", "name": "br", "ws": False, "attrs": [], "kids": []},
        {"k": "text", "s": "x y"},
        {"k": "tag", "name": "p", "ws": True, "attrs": [], "kids": [{"k": "text", "s": "q"}]},
    ],
}


def enum_catalogue(tier):
    names = sorted(set(gen.catalogue_names() + ["command", "keygen"] + list(gen.VOID)))
    for name in names:
        for shape, kids in SHAPES.items():
            if name in RAW and shape not in ("empty",):
                kids = [{"k": "text", "s": "abc"}] if shape == "text" else None
            if kids is None:
                continue
            for ws in (True, False):
                for attrs in ([], [["id", 'a"b'], ["data_x", True]]):
                    yield {
                        "roots": [{"k": "tag", "name": name, "ws": ws, "attrs": attrs, "kids": kids}],
                        "indent": 1 if ws else 0,
                        "eol": "\n",
                    }


def body_catalogue(case, note):
    body_tree(case, lambda nt, *cl: None)
    r = case["roots"][0]
    note(True, "void" if r["name"] in gen.VOID else "non-void", "childless" if not r["kids"] else "with-children")


# ------------------------------------------------------------------ second reader (stdlib html.parser)


def parser_events(html: str):
    """event stream of the stdlib HTMLParser (names lower-cased by the parser), text stripped/merged like actual_events"""
    from html.parser import HTMLParser

    ev: list = []

    class P(HTMLParser):
        def handle_starttag(self, tag, attrs):
            ev.append(("open", tag, [(k, "" if v is None else v) for k, v in attrs], False))

        def handle_startendtag(self, tag, attrs):
            ev.append(("open", tag, [(k, "" if v is None else v) for k, v in attrs], True))

        def handle_endtag(self, tag):
            ev.append(("close", tag))

        def handle_data(self, data):
            if ev and ev[-1][0] == "text":
                ev[-1] = ("text", ev[-1][1] + data)
            else:
                ev.append(("text", data))

        def handle_comment(self, data):
            ev.append(("comment", data))

        def handle_decl(self, decl):
            ev.append(("doctype", decl))

    p = P(convert_charrefs=True)
    p.feed(html)
    p.close()
    out = []
    for e in ev:
        if e[0] == "text":
            s = e[1].strip(WS_STRIP)
            if s:
                out.append(("text", s))
        else:
            out.append(e)
    return out


def _lower(events):
    out = []
    for e in events:
        if e[0] == "open":
            out.append(("open", e[1].lower(), [(k.lower(), v) for k, v in e[2]], e[3]))
        elif e[0] == "close":
            out.append(("close", e[1].lower()))
        else:
            out.append(e)
    return out


def body_readers(case, note):
    """T and the stdlib HTMLParser read the library's output; T must agree with the tree (as in 'tree'); a
    disagreement between the two *readers* is recorded as a class (it would point at an oracle bug), never a violation."""
    import htmltools

    roots = case["roots"]
    objs = [build(r) for r in roots]
    html = htmltools.TagList(*objs).get_html_string(case["indent"], case["eol"])
    ev = []
    for r, o in zip(roots, objs):
        expected_events(r, o, ev)
    compare("TagList.get_html_string", html, normalise_expected(ev))
    a = _lower(actual_events(html))
    b = parser_events(html)
    note(True, "readers-agree" if a == b else "reader-disagreement")


def selftest():
    T.selftest()
    assert parser_events('<div id="a&amp;b">x<br/>y</div>') == _lower(actual_events('<div id="a&amp;b">x<br/>y</div>'))
    assert len(gen.VOID) == 16


RULE = (
    "tree: random element recipes (catalogue + custom names, 0-5 attributes, Unicode/metachar text, numbers, both ws flags, "
    "indent 0-5, whitespace eol); non-trivial = >=2 elements and one of {void name, attribute value with a metacharacter, "
    "text with a metacharacter, depth>=3}; distinct by sha1 of the canonical recipe. catalogue: every catalogue name x child "
    "shape x ws flag x attribute set, complete."
)

CLAUSES = [
    Clause(
        "tree",
        body_tree,
        source="given",
        strategy=case_strategy,
        quick=1500,
        thorough=20000,
        shards_quick=4,
        required=("void", "attr-metachar", "text-metachar", "depth>=3", "re-rendered-after-edit", "strings-rendered-earlier-in-the-other-role", "earlier-rendering-raised", "same-object-twice"),
        rule="see RULE",
        fuzz=100000,
    ),
    Clause("readers", body_readers, source="given", strategy=case_strategy, quick=300, thorough=8000, shards_quick=1, shards_thorough=8, required=("readers-agree",), rule="every case (class histogram reports reader agreement)"),
    Clause("catalogue", body_catalogue, source="enum", enum=enum_catalogue, shards_quick=2, shards_thorough=4, rule="every case"),
]
