"""C11 - HTMLDocument builds one head/body and hoists every dependency into head.

assemble : differential - HTMLDocument.render() vs. manual assembly of the expected
           document from primitives and the dependency-markup model D        (Hypothesis)
structure: independent structural reading of the output with tokenizer T    (same cases)
"""

from __future__ import annotations

import hashlib

from hypothesis import strategies as st

from hv import gen
from hv.build import build
from hv.checks.c09 import expand
from hv.core import Clause, check
from hv.oracle import deps as D
from hv.oracle import snapshot as S
from hv.oracle import tokenizer as T

ASSUMPTIONS = [
    "the expected document is assembled from Tag primitives (their rendering is C01-C07's subject) and the harness's own model D of dependency URLs/markup/listing/resolution",
    "stylesheet items carry no 'rel' of their own; dependency names and versions are URL-safe canonical spellings",
    "user documents with two <head> children or a tagifiable that expands to <html> are outside the stated shapes",
]

VERSIONS = ["1.0", "1.2", "1.10", "0.9", "2", "1.10.1", "1.0rc1", "3.0.post1"]
SOURCES = [None, {"href": "https://cdn.example/lib"}, {"href": "/static/"}, {"package": "htmltools", "subdir": "libtest/testdep"}, {"subdir": "some/dir"}]
FILES = ["a.js", "sub dir/b c.js", "x%y.js", "\xe9.css", "q?.css", "n#1.js", "deep/er/f.css"]


def dep():
    script = st.lists(st.builds(lambda f, e: dict({"src": f}, **e), st.sampled_from(FILES), st.sampled_from([{}, {"defer": ""}, {"type": "module", "async": "1"}])), max_size=2)
    sheet = st.lists(st.builds(lambda f, e: dict({"href": f}, **e), st.sampled_from(FILES), st.sampled_from([{}, {"media": "print"}])), max_size=2)
    meta = st.lists(st.sampled_from([{"name": "viewport", "content": "width=1"}, {"name": "a<b", "content": "\"q\"", "http-equiv": "x"}]), max_size=1)
    head = st.sampled_from([None, None, "<title>t</title>", "raw & <b>", [{"k": "tag", "name": "style", "ws": True, "attrs": [], "kids": [{"k": "text", "s": "a>b{}"}]}], [{"k": "text", "s": "plain<"}, {"k": "tag", "name": "link", "ws": True, "attrs": [["rel", "icon"]], "kids": []}]])
    return st.builds(
        lambda n, v, src, sc, sh, me, hd, single: {
            "k": "dep",
            "name": n,
            "version": v,
            "source": src,
            "script": (sc[0] if single and len(sc) == 1 else sc) or None,
            "stylesheet": sh or None,
            "meta": me or None,
            "head": hd,
        },
        st.sampled_from(["alpha", "beta", "g-3"]),
        st.sampled_from(VERSIONS),
        st.sampled_from(SOURCES),
        script,
        sheet,
        meta,
        head,
        st.booleans(),
    )


def headc():
    return st.sampled_from(
        [
            {"k": "headc", "kids": [{"k": "tag", "name": "title", "ws": True, "attrs": [], "kids": [{"k": "text", "s": "My <T>"}]}]},
            {"k": "headc", "kids": [{"k": "text", "s": "ab"}]},
            {"k": "headc", "kids": [{"k": "text", "s": "a"}, {"k": "text", "s": "b"}]},
            {"k": "headc", "kids": [{"k": "html", "s": "<meta name=x>"}]},
        ]
    )


def leaf():
    text = st.builds(lambda s: {"k": "text", "s": s}, st.one_of(gen.safe_text(0, 4), gen.hot_text(2)))
    return gen.opaque(st.one_of(text, text, dep(), dep(), headc(), st.just({"k": "html", "s": "<i>r</i>"}), st.just({"k": "meta"})))


ATTRS = st.lists(st.tuples(st.sampled_from(["lang", "class", "data-x", "id"]), st.sampled_from(["en", "a b", True, 7, {"html": "&q;"}, 'x"y'])).map(list), max_size=3, unique_by=lambda p: p[0])
KW = st.lists(st.tuples(st.sampled_from(["lang", "class_", "data_x", "dir", "id"]), st.sampled_from(["fr", "k", True, None, False, 3, {"html": "&v;"}, 0, 0.0, "", "0", 1, 1.0])).map(list), max_size=3, unique_by=lambda p: p[0])


def tag(children, names=st.sampled_from(["div", "span", "p", "section", "b", "main", "pre", "textarea", "table", "tr", "td", "select", "a", "li", "button", "br", "x-el"])):
    return st.builds(
        lambda n, ws, a, k: {"k": "tag", "name": n, "ws": ws, "attrs": a, "kids": k},
        names,
        st.booleans(),
        st.lists(st.tuples(st.sampled_from(["id", "class"]), gen.safe_text(1, 3)).map(list), max_size=1),
        st.lists(children, max_size=4),
    )


def node(depth=2, tfy=True):
    lf = leaf()
    n = lf
    for d in range(depth):
        alts = [lf, tag(n), tag(n)]
        if tfy:
            inner = n
            alts.append(
                st.builds(
                    lambda r: {"k": "tfy", "res": r},
                    st.one_of(tag(inner), st.builds(lambda ks: {"k": "list", "t": "taglist", "kids": ks}, st.lists(inner, max_size=3)), dep()),
                )
            )
        n = st.one_of(*alts)
    return n


def html_root():
    n = node(1)
    usual = st.sampled_from(
        [
            {"k": "tag", "name": "title", "ws": True, "attrs": [], "kids": [{"k": "text", "s": "user"}]},
            {"k": "tag", "name": "meta", "ws": True, "attrs": [["charset", "latin1"]], "kids": []},
            {"k": "tag", "name": "meta", "ws": True, "attrs": [["charset", "utf-8"]], "kids": []},
            {"k": "tag", "name": "meta", "ws": True, "attrs": [["http-equiv", "Content-Type"], ["content", "text/html; charset=utf-8"]], "kids": []},
            {"k": "tag", "name": "base", "ws": True, "attrs": [["href", "/app/"]], "kids": []},
            {"k": "tag", "name": "link", "ws": True, "attrs": [["rel", "stylesheet"], ["href", "user.css"]], "kids": []},
            {"k": "tag", "name": "script", "ws": True, "attrs": [["type", "application/html-dependencies"]], "kids": [{"k": "text", "s": "user[0]"}]},
            {"k": "tag", "name": "script", "ws": True, "attrs": [["src", "user.js"]], "kids": []},
        ]
    )
    head = st.builds(lambda a, k: {"k": "tag", "name": "head", "ws": True, "attrs": a, "kids": k}, ATTRS, st.lists(st.one_of(n, usual, usual), max_size=3))
    body = st.builds(lambda a, k: {"k": "tag", "name": "body", "ws": True, "attrs": a, "kids": k}, ATTRS, st.lists(n, max_size=3))

    def mk(attrs, before, h, mid, b, after, ws, body_first):
        first, second = (b, h) if body_first else (h, b)
        kids = list(before)
        if first is not None:
            kids.append(first)
        kids += mid
        if second is not None:
            kids.append(second)
        kids += after
        return {"k": "tag", "name": "html", "ws": ws, "attrs": attrs, "kids": kids}

    side = st.lists(st.one_of(dep(), headc(), n), max_size=2)
    return st.builds(mk, ATTRS, side, st.none() | head, side, st.none() | body, side, st.sampled_from([True, True, False]), st.booleans())


def case_strategy():
    frag = st.lists(node(2), max_size=4)
    body = st.builds(lambda a, k, ws: [{"k": "tag", "name": "body", "ws": ws, "attrs": a, "kids": k}], ATTRS, st.lists(node(2), max_size=3), st.sampled_from([True, True, False]))
    html = html_root().map(lambda h: [h])
    body_plus = st.builds(lambda b, f: b + f, body, st.lists(node(1), min_size=1, max_size=2))  # not a *lone* body: gets wrapped
    # a top-level <head> / <html> among other content is ordinary content of the new <body>
    stray = st.builds(lambda nm, a, k: {"k": "tag", "name": nm, "ws": True, "attrs": a, "kids": k}, st.sampled_from(["head", "head", "html", "body"]), ATTRS, st.lists(node(1), max_size=2))
    head_plus = st.builds(lambda hd, f, at: f[:at] + [hd] + f[at:], stray, st.lists(node(1), min_size=1, max_size=3), st.integers(0, 3))
    content = st.one_of(frag, frag, body, body_plus, html, html, head_plus)
    return st.fixed_dictionaries(
        {
            "content": content,
            "split": st.integers(0, 4),
            "kw": KW,
            "lib": st.sampled_from([None, "lib", "a/b", "lib", "lib/", "/", "/static/lib", ""]),
            "iv": st.booleans(),
            "mode": st.sampled_from(["invisible", "invisible", "json"]),
        }
    )


# ---------------------------------------------------------------- model


def canon_headc(nodes):
    """replace head_content recipes by the dependency they denote (name from the rendered payload)"""
    import htmltools as h

    out = []
    for n in nodes:
        k = n["k"]
        if k == "headc":
            payload = h.TagList(*[build(x) for x in n["kids"]]).get_html_string()
            name = "headcontent_" + hashlib.sha1(payload.encode("utf-8")).hexdigest()
            out.append({"k": "dep", "name": name, "version": "0.0", "head": n["kids"], "_headc": n})
        elif k in ("tag", "list"):
            out.append(dict(n, kids=canon_headc(n["kids"])))
        else:
            out.append(n)
    return out


def strip_private(n):
    if isinstance(n, list):
        return [strip_private(x) for x in n]
    if n["k"] == "dep" and "_headc" in n:
        return n["_headc"]
    if n["k"] in ("tag", "list"):
        return dict(n, kids=strip_private(n["kids"]))
    return n


def merged_attrs(user, kw):
    m = {}
    for k, v in user:
        if v is None or v is False:
            continue
        m[gen.norm_attr_name(k)] = v
    for k, v in kw:
        if v is None or v is False:
            continue
        m[gen.norm_attr_name(k)] = v
    return [[k, v] for k, v in m.items()]


def assemble(case):
    """expected <html> recipe and resolved dependency recipes"""
    content = canon_headc(expand(case["content"]))
    lib, iv = case["lib"], case["iv"]
    if len(content) == 1 and content[0]["k"] == "tag" and content[0]["name"] == "html":
        shape = "html"
        root = content[0]
        pre = D.preorder([root])
    else:
        if len(content) == 1 and content[0]["k"] == "tag" and content[0]["name"] == "body":
            shape = "body"
            body = content[0]
        else:
            shape = "fragment"
            body = {"k": "tag", "name": "body", "ws": True, "attrs": [], "kids": content}
        root = {"k": "tag", "name": "html", "ws": True, "attrs": [], "kids": [{"k": "tag", "name": "head", "ws": True, "attrs": [], "kids": []}, body]}
        pre = D.preorder([body])
    res = D.resolve(pre)
    extra = [{"k": "tag", "name": "meta", "ws": True, "attrs": [["charset", "utf-8"]], "kids": []}]
    tail = []
    if res:
        tail.append(D.listing_tag(res))
    for d in res:
        tail.extend(D.markup(d, lib, iv))
    kids = list(root["kids"])
    hi = next((i for i, k in enumerate(kids) if k["k"] == "tag" and k["name"] == "head"), None)
    if hi is None:
        kids.insert(0, {"k": "tag", "name": "head", "ws": True, "attrs": [], "kids": []})
        hi = 0
        user_head = False
    else:
        user_head = shape == "html"
    head = kids[hi]
    kids[hi] = dict(head, kids=extra + list(head["kids"]) + tail)
    attrs = merged_attrs(root["attrs"], case["kw"])
    exp_root = strip_private(dict(root, attrs=attrs, kids=kids))
    return exp_root, res, shape, user_head, pre


def make_doc(case):
    import htmltools as h
    from hv.build import attr_value

    content = case["content"]
    k = case["split"] % (len(content) + 1)
    kw = {a: attr_value(v) for a, v in case["kw"]}
    if len(content) == 1:
        k = 1 if case["split"] % 2 else 0
    objs = [build(r) for r in content]
    doc = h.HTMLDocument(*objs[:k], **kw)
    if content[k:]:
        doc.append(*objs[k:])
    doc._hv_objs = objs  # harness handle on the built top-level objects (for the mutate-and-render-again step)
    return doc, k < len(content)


def _shape(nodes):
    if len(nodes) == 1 and nodes[0]["k"] == "tag" and nodes[0]["name"] in ("html", "body"):
        return nodes[0]["name"]
    return "fragment"


def body_assemble(case, note):
    import htmltools as h

    # the global that decides how str() shows dependencies is part of the environment a document is rendered in
    saved = h.html_dependency_render_mode
    h.html_dependency_render_mode = case.get("mode", "invisible")
    try:
        _assemble_body(case, note)
    finally:
        h.html_dependency_render_mode = saved


def _assemble_body(case, note):
    import htmltools as h

    if _shape(case["content"]) != _shape(expand(case["content"])):
        # whether e.g. [<body>, object expanding to nothing] counts as "a lone <body>" is not stated: not asserted
        note(False, "ambiguous-shape-skipped")
        return
    exp_root, res, shape, user_head, pre = assemble(case)
    doc, later = make_doc(case)
    r = doc.render(lib_prefix=case["lib"], include_version=case["iv"])
    want = "<!DOCTYPE html>\n" + build(exp_root).get_html_string()
    check(r["html"] == want, f"HTMLDocument.render()['html'] differs from the assembled document ({shape})", want, r["html"])
    got = [(d.name, str(d.version)) for d in r["dependencies"]]
    check(got == [(d["name"], d["version"]) for d in res], "returned dependencies are not the resolved list", [(d["name"], d["version"]) for d in res], got)
    exp_objs = [build(strip_private(d)) for d in res]
    check([S.snap(d) for d in r["dependencies"]] == [S.snap(d) for d in exp_objs], "returned dependencies differ in content from the resolved ones")
    r2 = doc.render(lib_prefix=case["lib"], include_version=case["iv"])
    check(r2["html"] == r["html"], "rendering the document twice gives different markup")
    # content changed *after* a rendering (not through doc.append): the next rendering must show it
    mutated = False
    for i, (rec, obj) in enumerate(zip(case["content"], doc._hv_objs)):
        if rec["k"] == "tag" and isinstance(obj, h.Tag):
            late_dep = {"k": "dep", "name": "late-dep", "version": "9.9", "head": "<late>"}
            obj.append(build(late_dep), "late-text")
            content2 = list(case["content"])
            content2[i] = dict(rec, kids=list(rec["kids"]) + [late_dep, {"k": "text", "s": "late-text"}])
            case2 = dict(case, content=content2)
            if _shape(content2) == _shape(expand(content2)):
                exp2, res2, _, _, _ = assemble(case2)
                r3 = doc.render(lib_prefix=case["lib"], include_version=case["iv"])
                want3 = "<!DOCTYPE html>\n" + build(exp2).get_html_string()
                check(r3["html"] == want3, "a rendering after the content was changed does not show the change", want3, r3["html"])
                check([(d.name, str(d.version)) for d in r3["dependencies"]] == [(d["name"], d["version"]) for d in res2], "dependencies after the content was changed are not the resolved list")
                mutated = True
            break
    _structure(r["html"], case, res, shape)
    depth2 = _max_dep_depth(case["content"]) >= 2
    in_user_head = user_head and any(_has_dep(k) for k in _user_head_kids(case["content"]))
    note(
        (len(res) >= 2 and depth2) or in_user_head,
        "shape:" + shape,
        "later-content" if later else "",
        "user-head-with-dep" if in_user_head else "",
        "kw-collides" if shape == "html" and {gen.norm_attr_name(k) for k, v in case["kw"]} & {a for a, _ in case["content"][0]["attrs"]} else "",
        "version-collision" if len(pre) > len(res) else "",
        "headc" if any("_headc" in d for d in res) else "",
        "no-deps" if not res else "",
        "head-after-body" if _head_after_body(case["content"]) else "",
        "rendered-again-after-change" if mutated else "",
        "inline-body" if shape == "body" and not case["content"][0]["ws"] else "",
        "body-plus-more" if len(case["content"]) > 1 and case["content"][0]["k"] == "tag" and case["content"][0]["name"] == "body" else "",
        "json-render-mode" if case.get("mode") == "json" and res else "",
        "top-level-head-among-other-content" if shape == "fragment" and any(n["k"] == "tag" and n["name"] == "head" for n in case["content"]) else "",
        "falsy-but-present-html-attribute" if any(v is not None and v is not False and not v for _, v in case["kw"]) else "",
        "user-head-with-own-meta/link/script" if user_head and any(k["k"] == "tag" and k["name"] in ("meta", "base", "link", "script") for k in _user_head_kids(case["content"])) else "",
    )


def _head_after_body(content):
    if len(content) == 1 and content[0]["k"] == "tag" and content[0]["name"] == "html":
        names = [k["name"] for k in content[0]["kids"] if k["k"] == "tag"]
        return "head" in names and "body" in names and names.index("head") > names.index("body")
    return False


def _user_head_kids(content):
    if len(content) == 1 and content[0]["k"] == "tag" and content[0]["name"] == "html":
        for k in content[0]["kids"]:
            if k["k"] == "tag" and k["name"] == "head":
                return k["kids"]
    return []


def _has_dep(n):
    if n["k"] in ("dep", "headc"):
        return True
    if n["k"] in ("tag", "list"):
        return any(_has_dep(k) for k in n["kids"])
    if n["k"] == "tfy":
        return _has_dep(n["res"])
    return False


def _max_dep_depth(nodes, d=0):
    m = -1
    for n in nodes:
        if n["k"] in ("dep", "headc"):
            m = max(m, d)
        elif n["k"] == "tag":
            m = max(m, _max_dep_depth(n["kids"], d + 1))
        elif n["k"] == "list":
            m = max(m, _max_dep_depth(n["kids"], d))
        elif n["k"] == "tfy":
            m = max(m, _max_dep_depth([n["res"]], d))
    return m


# ---------------------------------------------------------------- structural reading with T


def _structure(html: str, case, res, shape):
    check(html.startswith("<!DOCTYPE html>\n"), "output does not start with the doctype", html[:40])
    toks = T.tokenize(html)
    check(toks[0].kind == "doctype", "first token is not a doctype")
    # children of the root html element, by depth counting (void / self-closed elements have no end tag)
    depth = 0
    root_opens = 0
    heads = 0
    head_first = None
    in_head_at = None
    listings = []
    urls = []
    stack = []
    for i, t in enumerate(toks[1:], 1):
        if t.kind == "open":
            if depth == 0:
                check(t.name == "html", "top-level element is not <html>", t)
                root_opens += 1
            if depth == 1 and t.name == "head" and stack == ["html"]:
                heads += 1
                in_head_at = i
            if in_head_at is not None and depth == 2 and head_first is None and stack[:2] == ["html", "head"]:
                head_first = t
            if stack[:2] == ["html", "head"] and depth == 2 and t.name == "script" and dict(t.attrs).get("type") == "application/html-dependencies":
                nxt = toks[i + 1]
                listings.append(nxt.data if nxt.kind == "text" else "")
            if stack[:2] == ["html", "head"] and depth == 2:
                for k, v in t.attrs:
                    if (t.name == "script" and k == "src") or (t.name == "link" and k == "href"):
                        urls.append(v)
            if not t.selfclosing:
                stack.append(t.name)
                depth += 1
        elif t.kind == "close":
            if stack and stack[-1] == t.name:
                stack.pop()
                depth -= 1
        elif t.kind == "text" and depth == 0:
            check(t.data.strip() == "", "text outside the root element", t)
    hostile = any(_hostile(n) for n in case["content"])
    if hostile:
        return
    check(root_opens == 1, f"{root_opens} root <html> elements")
    check(heads == 1, f"<html> has {heads} <head> children")
    check(head_first is not None and head_first.name == "meta" and head_first.attrs == [("charset", "utf-8")] and head_first.selfclosing, "<head> does not start with <meta charset=\"utf-8\"/>", head_first)
    # the user's own <head> children come first (kept in order), whatever they are
    own = [k for k in _user_head_kids(expand(case["content"])) if k["k"] == "tag"] if shape == "html" else []
    own_listings = [("".join(x["s"] for x in k["kids"] if x["k"] == "text")) for k in own if k["name"] == "script" and dict(map(tuple, k["attrs"])).get("type") == "application/html-dependencies"]
    exp_urls = [v for k in own for a, v in k["attrs"] if (k["name"] == "script" and a == "src") or (k["name"] == "link" and a == "href")]
    if res:
        check(listings == own_listings + [D.listing(res)], "dependency listing script missing, duplicated or wrong", D.listing(res), listings)
    else:
        check(listings == own_listings, "listing script present without dependencies")
    for d in res:
        for s in D.as_list(d.get("stylesheet")):
            exp_urls.append(D.url(d, s["href"], case["lib"], case["iv"]))
        for s in D.as_list(d.get("script")):
            exp_urls.append(D.url(d, s["src"], case["lib"], case["iv"]))
    check(urls == exp_urls, "script/link URLs in <head> are not each resolved dependency's files, once, in order", exp_urls, urls)


def _hostile(n):
    """raw markup that itself contains tags confuses a structural reading; the differential clause still applies"""
    if n["k"] == "html":
        return "<" in n["s"] and n["s"] != "<i>r</i>"
    if n["k"] == "text":
        return False
    if n["k"] in ("tag", "list", "headc"):
        return any(_hostile(k) for k in n["kids"])
    if n["k"] == "tfy":
        return _hostile(n["res"])
    if n["k"] == "dep":
        h = n.get("head")
        return isinstance(h, str) and h == "raw & <b>"
    return False


def selftest():
    T.selftest()
    assert D.pct("sub dir/b c.js") == "sub%20dir/b%20c.js" and D.pct("x%y.js") == "x%25y.js" and D.pct("\xe9.css") == "%C3%A9.css"
    d = {"name": "n", "version": "1.0", "source": {"subdir": "x"}}
    assert D.url(d, "a b.js", "lib", True) == "lib/n-1.0/a%20b.js" and D.url(d, "a.js", None, False) == "n/a.js"
    assert D.url({"name": "n", "version": "1", "source": {"href": "http://h/x"}}, "a.js") == "http://h/x/a.js"
    assert D.url({"name": "n", "version": "1", "source": None}, "a.js") == "a.js"


RULE = (
    "documents whose content is a fragment list, a lone <body> or a lone <html> (optional head/body in any child position, dependencies "
    "directly under html and inside the user head), given at construction and/or appended later, with dependencies/head_content/tagifiables "
    "anywhere, 0-3 html attribute kwargs, lib_prefix in {None, lib, a/b}, include_version on/off; non-trivial = >=2 resolved dependencies with "
    "one hoisted from depth >=2, or a user head containing a dependency; distinct by sha1 of the recipe"
)

CLAUSES = [
    Clause(
        "assemble",
        body_assemble,
        strategy=case_strategy,
        quick=700,
        thorough=10000,
        shards_quick=4,
        required=("shape:html", "shape:body", "shape:fragment", "later-content", "user-head-with-dep", "kw-collides", "version-collision", "headc", "no-deps", "head-after-body", "body-plus-more", "rendered-again-after-change", "inline-body", "json-render-mode", "user-head-with-own-meta/link/script", "falsy-but-present-html-attribute", "top-level-head-among-other-content"),
        rule="see RULE",
    ),
]
