"""C07 - metadata nodes leave no trace in the markup (metamorphic: with == without).

positions    : every position of one / two metadata nodes in every sibling sequence of length <= 3 over 13 sibling
               kinds under 9 kinds of parent, three indent / eol settings                      (exhaustive)
docpos       : plain metadata nodes at every position among <= 3 children (5 kinds) of a user's <html> / <head>,
               through HTMLDocument.render()                                                  (exhaustive)
with-without : random layout trees with metadata at generated positions                       (Hypothesis)
"""

from __future__ import annotations

from hypothesis import strategies as st

from hv import gen
from hv.build import build
from hv.core import Clause, check
from hv.oracle import deps as D
from hv.oracle import layout as L

ASSUMPTIONS = [
    "the 'without' tree is the same recipe with every MetadataNode / HTMLDependency / head_content leaf removed",
    "dependency resolution is compared by (name, version) against the harness resolver D (identity for dedup=False)",
]

EOLS = ["\n", "\r\n", "", " ", "EOL"]


def strip(nodes):
    out = []
    for n in nodes:
        if L.is_meta(n):
            continue
        if n["k"] == "tag":
            out.append(dict(n, kids=strip(n["kids"])))
        elif n["k"] == "list":
            out.append(dict(n, kids=strip(n["kids"])))
        elif n["k"] == "tfy":
            # metadata that arrives through an expansion is stripped from the expansion
            res = strip([n["res"]])
            out.append(dict(n, res=res[0] if res else {"k": "list", "t": "taglist", "kids": []}))
        else:
            out.append(n)
    return out


TFY_LEAVES = [
    {"k": "tfy", "res": {"k": "list", "t": "taglist", "kids": []}},
    {"k": "tfy", "res": {"k": "list", "t": "taglist", "kids": [{"k": "text", "s": "e1"}, {"k": "text", "s": "e2"}]}},
    {"k": "tfy", "res": {"k": "list", "t": "taglist", "kids": [{"k": "text", "s": "f1"}, {"k": "dep", "name": "td", "version": "1"}, {"k": "tag", "name": "b", "ws": False, "attrs": [], "kids": []}]}},
    {"k": "tfy", "res": {"k": "text", "s": "single"}},
    {"k": "tfy", "res": {"k": "list", "t": "taglist", "kids": [{"k": "text", "s": "g1"}, {"k": "dep", "name": "td", "version": "2"}]}},
    {"k": "tfy", "res": {"k": "list", "t": "taglist", "kids": [{"k": "dep", "name": "td", "version": "3"}]}},
    {"k": "tfy", "res": {"k": "dep", "name": "te", "version": "1", "head": "<meta name='e'>"}},
    {"k": "tfy", "res": {"k": "list", "t": "taglist", "kids": [{"k": "meta"}, {"k": "html", "s": "<i>g2</i>"}, {"k": "headc", "kids": [{"k": "text", "s": "hc2"}]}]}},
    {"k": "tfy", "res": {"k": "tag", "name": "p", "ws": True, "attrs": [], "kids": [{"k": "text", "s": "g3"}, {"k": "dep", "name": "tf", "version": "1"}]}},
    # components that are tagifiable *and* self-rendering (their _repr_html_ differs from their expansion)
    {"k": "tfy", "repr": True, "res": {"k": "tag", "name": "ul", "ws": True, "attrs": [], "kids": [{"k": "tag", "name": "li", "ws": True, "attrs": [], "kids": [{"k": "text", "s": "w1"}]}, {"k": "text", "s": "w2"}]}},
    {"k": "tfy", "repr": True, "res": {"k": "list", "t": "taglist", "kids": [{"k": "text", "s": "v1"}, {"k": "tag", "name": "div", "ws": True, "attrs": [], "kids": [{"k": "text", "s": "v2"}]}]}},
]


def _add_tfy(nodes, pick, top=True):
    """plant tagifiable objects (expanding to 0, 1, 2 or 3 nodes) at generated positions"""
    out = []
    for i, n in enumerate(nodes):
        if n["k"] == "tag":
            n = dict(n, kids=_add_tfy(n["kids"], pick // 3 + i, False))
        if (pick + i) % 4 == 0:
            out.append(TFY_LEAVES[(pick // 2 + i) % len(TFY_LEAVES)])
        if (pick + i) % 7 == 3 and n["k"] != "tag" and not top:
            continue  # the object takes the place of a leaf (it may then be the only child)
        out.append(n)
    if not nodes and not top and pick % 3 == 0:
        out.append(TFY_LEAVES[(pick // 2) % len(TFY_LEAVES)])
    return out


def case_strategy():
    return st.fixed_dictionaries(
        {
            "tfy": st.one_of(st.just(0), st.just(0), st.integers(1, 10**6)),
            "share": st.one_of(st.just(0), st.integers(1, 10**6)),
            "roots": gen.layout_forest(newlines=True, meta=3, spaces=True, blank=("", " ", "\n", "\nabc", "\r\nx", "tail\n", "t\r\n", "two\n\n", "sp \n")).map(gen.number),
            "indent": st.integers(0, 4),
            "eol": st.sampled_from(EOLS),
            "pick": st.integers(0, 10**6),
            # the global that decides how str() shows dependencies (str() itself is then exempt: it shows them by design)
            "mode": st.sampled_from(["invisible", "invisible", "invisible", "json"]),
        }
    )


def _positions(nodes, acc, parent_kind="list"):
    """classify where metadata sits"""
    vis = [n for n in nodes if not L.is_meta(n)]
    metas = [i for i, n in enumerate(nodes) if L.is_meta(n)]
    if metas:
        if not vis:
            acc.add("only-children" if parent_kind != "list" else "only-roots")
        if metas[0] == 0:
            acc.add("first")
        if metas[-1] == len(nodes) - 1:
            acc.add("last")
        for i in metas:
            if 0 < i < len(nodes) - 1:
                a, b = nodes[i - 1], nodes[i + 1]
                if L.is_meta(a) or L.is_meta(b):
                    acc.add("several-in-a-row")
                elif L.is_block(a) != L.is_block(b):
                    acc.add("between-inline-and-block")
                else:
                    acc.add("between")
        if parent_kind == "void":
            acc.add("inside-void")
        if parent_kind == "single-text" :
            acc.add("beside-single-text")
    for n in nodes:
        if n["k"] == "tag":
            v = [k for k in n["kids"] if not L.is_meta(k)]
            pk = "void" if n["name"] in L.VOID and not v else ("single-text" if len(v) == 1 and v[0]["k"] in ("text", "html") else "tag")
            _positions(n["kids"], acc, pk)


def collect_deps(objs):
    """document-order dependency objects, own traversal"""
    import htmltools as h

    out = []
    for o in objs:
        if isinstance(o, h.HTMLDependency):
            out.append(o)
        elif isinstance(o, h.Tag):
            out.extend(collect_deps(list(o.children)))
    return out


def body(case, note):
    import htmltools as h

    saved = h.html_dependency_render_mode
    h.html_dependency_render_mode = case.get("mode", "invisible")
    try:
        _body(case, note)
    finally:
        h.html_dependency_render_mode = saved


def _body(case, note):
    import htmltools as h

    json_mode = h.html_dependency_render_mode == "json"
    _str = (lambda x: x.get_html_string()) if json_mode else str  # str() shows dependencies in json mode, by design
    roots, indent, eol = case["roots"], case["indent"], case["eol"]
    has_tfy = bool(case.get("tfy"))
    if has_tfy:
        roots = _add_tfy(roots, case["tfy"])
    if case.get("share"):
        roots = gen.share_some(roots, case["share"])  # e.g. the same dependency object several times in a row
    bare = strip(roots)
    memo_w: dict = {}
    memo_o: dict = {}
    w = [build(r, memo_w) for r in roots]
    wo = [build(r, memo_o) for r in bare]
    if case.get("pick", 0) % 5 == 0:
        # the children of every root tag are re-added one at a time with `+=` (a bare string is added as a string)
        for objs_ in (w, wo):
            for o in objs_:
                if isinstance(o, h.Tag):
                    kids_ = list(o.children)
                    del o.children[:]
                    for kd in kids_:
                        if isinstance(kd, str) and not isinstance(kd, h.HTML):
                            o.children += kd
                        else:
                            o.children += [kd]
    tlw, tlo = h.TagList(*w), h.TagList(*wo)
    if has_tfy:
        # markup can only be asked of an expanded tree: compare the expanded trees and the render() paths
        a, b = tlw.tagify().get_html_string(indent, eol), tlo.tagify().get_html_string(indent, eol)
        check(a == b, "tagify().get_html_string changes when metadata nodes are present (tree with tagifiable objects)", b, a)
        check(tlw.render()["html"] == tlo.render()["html"], "TagList.render()['html'] changes with metadata (tree with tagifiable objects)", tlo.render()["html"], tlw.render()["html"])
        check(json_mode or str(tlw) == str(tlo), "str(TagList) changes with metadata (tree with tagifiable objects)")
        for r, ow in zip(roots, w):
            if r["k"] == "tag":
                oo = build(strip([r])[0], {})
                check(ow.render()["html"] == oo.render()["html"], "Tag.render()['html'] changes with metadata (tree with tagifiable objects)", oo.render()["html"], ow.render()["html"])
        acc: set = set()
        _positions(roots, acc)
        note(bool(acc & {"first", "only-children", "between-inline-and-block"}), "with-tagifiable", "json-mode" if json_mode else "", *sorted(acc))
        return
    a, b = tlw.get_html_string(indent, eol), tlo.get_html_string(indent, eol)
    check(a == b, "TagList.get_html_string changes when metadata nodes are present", b, a)
    check(tlw.get_html_string(indent, eol, add_ws=False) == tlo.get_html_string(indent, eol, add_ws=False), "TagList(add_ws=False) changes with metadata")
    check(tlw.render()["html"] == tlo.render()["html"], "TagList.render()['html'] changes with metadata", tlo.render()["html"], tlw.render()["html"])
    check(_str(tlw) == _str(tlo), "str(TagList) changes with metadata")
    vis_roots = [r for r in roots if not L.is_meta(r)]
    wv = [o for r, o in zip(roots, w) if not L.is_meta(r)]
    for r, ow, oo in zip(vis_roots, wv, wo):
        if r["k"] != "tag":
            continue
        a, b = ow.get_html_string(indent, eol), oo.get_html_string(indent, eol)
        check(a == b, "Tag.get_html_string changes when metadata nodes are present", b, a)
        check(_str(ow) == _str(oo), "str(tag) changes with metadata")
        check(ow.render()["html"] == oo.render()["html"], "Tag.render()['html'] changes with metadata")
    # dependencies: exactly the inserted objects, in document order; resolved by D
    exp = collect_deps(w)
    got = tlw.get_dependencies(dedup=False)
    check(len(got) == len(exp) and all(x is y for x, y in zip(got, exp)), "get_dependencies(dedup=False) is not the inserted dependencies in document order", [repr(x) for x in exp], [repr(x) for x in got])
    res = D.resolve(exp, name=lambda d: d.name, version=lambda d: str(d.version))
    got = tlw.get_dependencies()
    check(len(got) == len(res) and all(x is y for x, y in zip(got, res)), "get_dependencies() differs from the resolver", [repr(x) for x in res], [repr(x) for x in got])
    rd = tlw.render()["dependencies"]
    check([(d.name, str(d.version)) for d in rd] == [(d.name, str(d.version)) for d in res], "render()['dependencies'] differs from the resolver")
    check(tlo.get_dependencies() == [] and tlo.render()["dependencies"] == [], "tree without metadata reports dependencies")
    # insert-then-remove through the public list API
    tags = []

    def walk(o):
        if isinstance(o, h.Tag):
            tags.append(o)
            for c in o.children:
                walk(c)

    for o in wo:
        walk(o)
    if tags:
        t = tags[case["pick"] % len(tags)]
        base = tlo.get_html_string(indent, eol)
        idx = (case["pick"] // 7) % (len(t.children) + 1)
        node = h.MetadataNode() if case["pick"] % 2 else h.HTMLDependency("ins", "1.0", head="<x>")
        how = (case["pick"] // 3) % 3
        if how == 0:
            t.insert(idx, node)
        elif how == 1:
            t.children[idx:idx] = [node]  # the child list is a public, mutable list
        else:
            t.children.insert(idx, node)
        check(tlo.get_html_string(indent, eol) == base, "inserting a metadata node changed the markup", base, tlo.get_html_string(indent, eol))
        check(t.children[idx] is node, "insert() did not place the node at the index")
        del t.children[idx]
        check(tlo.get_html_string(indent, eol) == base, "removing the metadata node did not restore the markup")
    # the same comparison when the children arrive through a `with tag:` block (sys.displayhook)
    import sys

    def via_with(nodes):
        t = h.Tag("section")
        saved = sys.displayhook
        sys.displayhook = lambda v: None  # the enclosing hook that receives the tag on exit
        try:
            with t:
                for n in nodes:
                    sys.displayhook(build(n))
        finally:
            sys.displayhook = saved
        return t

    top_w = [r for r in roots if r["k"] in ("tag", "text", "meta", "dep", "headc")]
    if top_w:
        tw, to = via_with(top_w), via_with(strip(top_w))
        a, b = tw.get_html_string(indent, eol), to.get_html_string(indent, eol)
        check(a == b, "a tag filled through a with-block renders differently when metadata nodes were displayed in it", b, a)
        exp_w = [o for o in tw.children if isinstance(o, h.HTMLDependency)]
        n_meta = sum(1 for r in top_w if r["k"] in ("dep", "headc"))
        check(len(tw.get_dependencies(dedup=False)) >= n_meta and len(exp_w) == n_meta, "dependencies displayed inside a with-block are not all kept as metadata children", n_meta, len(exp_w))
    acc: set = set()
    _positions(roots, acc)
    note(bool(acc & {"first", "only-children", "between-inline-and-block"}), "same-object-repeated" if memo_w else "", "json-mode" if json_mode else "", *sorted(acc))


# ---------------------------------------------------------------- exhaustive positions

import itertools

POS_KINDS = ["block", "inline", "void-block", "void-inline", "text", "text-leading-newline", "text-trailing-newline", "text-trailing-space", "blank", "empty", "html", "html-newline", "repr"]
POS_PARENTS = ["block", "inline", "pre", "textarea", "list", "void", "script", "title", "option"]


def _pos_node(kind):
    t = {"k": "text", "s": "x"}
    return {
        "block": {"k": "tag", "name": "div", "ws": True, "attrs": [], "kids": [t]},
        "inline": {"k": "tag", "name": "span", "ws": False, "attrs": [], "kids": [t]},
        "void-block": {"k": "tag", "name": "hr", "ws": True, "attrs": [], "kids": []},
        "void-inline": {"k": "tag", "name": "br", "ws": False, "attrs": [], "kids": []},
        "text": t,
        "text-leading-newline": {"k": "text", "s": "\nabc"},
        "text-trailing-newline": {"k": "text", "s": "first line\n"},
        "text-trailing-space": {"k": "text", "s": "sp "},
        "blank": {"k": "text", "s": " "},
        "empty": {"k": "text", "s": ""},
        "html": {"k": "html", "s": "<i>y</i>"},
        "html-newline": {"k": "html", "s": "\n"},
        "repr": {"k": "repr", "s": "<u>z</u>"},
    }[kind]


POS_META = [{"k": "meta"}, {"k": "dep", "name": "pd", "version": "1.0", "script": [{"src": "p.js"}], "head": "<pd>"}, {"k": "headc", "kids": [{"k": "text", "s": "phc"}]}]


def enum_positions(tier):
    for parent in POS_PARENTS:
        for n in range(0, 4):
            for sibs in itertools.product(POS_KINDS, repeat=n):
                yield {"parent": parent, "sibs": list(sibs)}


def _pos_wrap(parent, kids):
    if parent == "list":
        return kids
    name, ws = {"block": ("section", True), "inline": ("em", False), "pre": ("pre", False), "textarea": ("textarea", False), "void": ("input", False), "script": ("script", True), "title": ("title", True), "option": ("option", True)}[parent]
    return [{"k": "tag", "name": name, "ws": ws, "attrs": [], "kids": kids}]


def body_positions(case, note):
    """every position of one or two metadata nodes in every sibling sequence of length <= 3 under every kind of parent"""
    import htmltools as h

    sibs = [_pos_node(k) for k in case["sibs"]]
    if case["parent"] == "script":
        sibs = [x for x in sibs if x["k"] in ("text", "html")]
    settings = [(0, "\n"), (2, "\r\n"), (1, " ")]

    def make(kids, mode):
        """mode 'ctor': through the constructor; 'iadd': the parent's children added one at a time with += (text as a bare string)"""
        roots = _pos_wrap(case["parent"], kids if mode == "ctor" else [])
        objs = [build(r) for r in roots]
        if mode == "iadd":
            target = objs[0].children if case["parent"] != "list" else None
            if target is None:
                tl = h.TagList()
                target = tl
            for kd in kids:
                o = build(kd)
                if isinstance(o, str) and not isinstance(o, h.HTML):
                    target += o
                else:
                    target += [o]
            if case["parent"] == "list":
                return target
        return h.TagList(*objs)

    n = 0
    for mode in ("ctor", "iadd"):
        bare = make(sibs, mode)
        want = [bare.get_html_string(i, e) for i, e in settings]
        want_str = str(bare)
        for pos in range(len(sibs) + 1):
            for metas in ([POS_META[pos % 3]], [POS_META[(pos + 1) % 3], POS_META[0]]):
                x = make(sibs[:pos] + metas + sibs[pos:], mode)
                for (i, e), w in zip(settings, want):
                    got = x.get_html_string(i, e)
                    check(got == w, f"metadata at position {pos} of {case['sibs']} under a {case['parent']} parent ({mode}) changes get_html_string({i}, {e!r})", w, got)
                check(str(x) == want_str and x.render()["html"] == want_str, f"metadata at position {pos} of {case['sibs']} under a {case['parent']} parent ({mode}) changes str() / render()", want_str, str(x))
                n += 1
    note(True, "parent:" + case["parent"])


DOC_KINDS = ["meta-charset", "title", "text", "block", "script-child"]


def enum_docpos(tier):
    for where in ("html", "head"):
        for n in range(0, 4):
            for sibs in itertools.product(DOC_KINDS, repeat=n):
                yield {"where": where, "sibs": list(sibs)}


def _doc_node(kind):
    return {
        "meta-charset": {"k": "tag", "name": "meta", "ws": True, "attrs": [["charset", "latin1"]], "kids": []},
        "title": {"k": "tag", "name": "title", "ws": True, "attrs": [], "kids": [{"k": "text", "s": "T"}]},
        "text": {"k": "text", "s": "x"},
        "block": {"k": "tag", "name": "div", "ws": True, "attrs": [], "kids": [{"k": "text", "s": "d"}]},
        "script-child": {"k": "tag", "name": "script", "ws": True, "attrs": [["src", "u.js"]], "kids": []},
    }[kind]


class _MyMeta:
    pass


def body_docpos(case, note):
    """plain metadata nodes (and subclass instances) at every position among the children of a user's <html> / <head>:
    HTMLDocument.render() / save_html must produce the same document as without them"""
    import htmltools as h

    class Marker(h.MetadataNode):
        pass

    def doc(kids_recipes, metas_at):
        kids = []
        for i, r in enumerate(kids_recipes + [None]):
            for mk in metas_at.get(i, []):
                kids.append(h.MetadataNode() if mk == 0 else Marker())
            if r is not None:
                kids.append(build(r))
        if case["where"] == "head":
            page = h.Tag("html", h.Tag("head", *kids), h.Tag("body", "b"))
        else:
            page = h.Tag("html", *kids, h.Tag("head", h.Tag("title", "t")), h.Tag("body", "b"))
        return h.HTMLDocument(page, lang="en")

    sibs = [_doc_node(k) for k in case["sibs"]]
    want = doc(sibs, {}).render()["html"]
    for pos in range(len(sibs) + 1):
        for metas in ([0], [1], [0, 1]):
            d = doc(sibs, {pos: metas})
            got = d.render()["html"]
            check(got == want, f"plain metadata node(s) at position {pos} among the children {case['sibs']} of the user's <{case['where']}> change HTMLDocument.render()", want, got)
            check(d.render()["html"] == want, "... on the second rendering", want)
    note(True, "where:" + case["where"])


RULE = (
    "random layout trees (block/inline/void tags, text with newlines/spaces, HTML(), _repr_html_ objects) with MetadataNode / "
    "HTMLDependency / head_content leaves at generated positions vs. the same tree without them; non-trivial = a metadata node "
    "that is a first child, the only children of a tag, or between an inline and a block sibling; distinct by sha1 of the recipe"
)

CLAUSES = [
    Clause("docpos", body_docpos, source="enum", enum=enum_docpos, shards_quick=2, shards_thorough=4, rule="every case"),
    Clause("positions", body_positions, source="enum", enum=enum_positions, shards_quick=8, shards_thorough=16, rule="every case"),
    Clause(
        "with-without",
        body,
        strategy=case_strategy,
        quick=700,
        thorough=12000,
        shards_quick=4,
        required=("first", "last", "only-children", "between-inline-and-block", "several-in-a-row", "inside-void", "beside-single-text", "with-tagifiable", "same-object-repeated", "json-mode"),
        rule="see RULE",
    ),
]
