"""C09 - tagifiable objects render as their expansion, spliced in place (reference: own substitution)."""

from __future__ import annotations

from hypothesis import strategies as st

from hv import gen
from hv.build import Tfy, build
from hv.core import Clause, check
from hv.oracle import deps as D
from hv.oracle import snapshot as S

ASSUMPTIONS = [
    "Tfy.tagify() returns its declared expansion fully tagified, as the Tagifiable protocol requires",
    "expand() is the harness's own substitution on recipes: a list result is spliced, any other result takes the object's place",
    "dependencies are compared by structural snapshot; resolution by the harness resolver D",
]

DEPS = [
    {"k": "dep", "name": "a", "version": "1.0", "head": "<a1>"},
    {"k": "dep", "name": "a", "version": "1.2", "script": [{"src": "a.js"}], "source": {"href": "http://h/"}},
    {"k": "dep", "name": "b", "version": "0.9", "head": "<b>"},
    {"k": "dep", "name": "b", "version": "0.10", "meta": [{"name": "n", "content": "c"}]},
    {"k": "headc", "kids": [{"k": "text", "s": "hc1"}]},
    {"k": "headc", "kids": [{"k": "tag", "name": "title", "ws": True, "attrs": [], "kids": [{"k": "text", "s": "T"}]}]},
]


def leaf():
    text = st.builds(lambda s: {"k": "text", "s": s}, st.one_of(gen.safe_text(0, 4), gen.hot_text(3)))
    html = st.builds(lambda s: {"k": "html", "s": s}, st.sampled_from(["<b>x</b>", "", "&amp;", "a\nb"]))
    return gen.opaque(st.one_of(text, text, html, st.sampled_from(DEPS), st.just({"k": "repr", "s": "<u>r</u>"})))


def tag(children):
    return st.builds(
        lambda n, ws, a, k: {"k": "tag", "name": n, "ws": ws, "attrs": a, "kids": k},
        st.sampled_from(["div", "span", "p", "b", "ul", "li", "script", "style", "head", "br"] + gen.SPECIAL_NAMES + gen.RAWISH_NAMES),
        st.booleans(),
        st.lists(st.tuples(st.sampled_from(["id", "class_"]), gen.safe_text(1, 3)).map(list), max_size=1),
        st.lists(children, max_size=4),
    )


def tfy(children, repr_ok=False):
    res = st.one_of(
        tag(children),
        st.builds(lambda ks: {"k": "list", "t": "taglist", "kids": ks}, st.lists(children, max_size=4)),
        st.builds(lambda ks: {"k": "list", "t": "taglist", "kids": ks}, st.just([])),
        st.builds(lambda s: {"k": "text", "s": s}, gen.hot_text(3)),
        st.sampled_from([{"k": "html", "s": "<i>h</i>"}, DEPS[0], DEPS[3], DEPS[4]]),
    )
    variant = st.just(None) if repr_ok else st.sampled_from([None, None, None, "stored", "strsub", "iter", "flaky", "flex", "tagsub", "listsub"])
    return st.builds(lambda r, rp, v: {"k": "tfy", "res": r, "repr": rp, "variant": v}, res, st.booleans() if repr_ok else st.just(False), variant)


def forest(repr_ok=False):
    lf = leaf()
    n0 = st.one_of(lf, tag(lf), tfy(lf, repr_ok))
    n1 = st.one_of(lf, tag(n0), tfy(n0, repr_ok), tfy(n0, repr_ok))
    n2 = st.one_of(lf, tag(n1), tag(n1), tfy(n1, repr_ok))
    return st.lists(st.one_of(tag(n2), tag(n2), tfy(n2, repr_ok), lf), min_size=1, max_size=3)


def expand(nodes):
    out = []
    for n in nodes:
        k = n["k"]
        if k == "tfy":
            r = n["res"]
            if r["k"] == "list":
                out.extend(expand(r["kids"]))
            else:
                out.extend(expand([r]))
        elif k == "tag":
            out.append(dict(n, kids=expand(n["kids"])))
        elif k == "list":
            out.extend(expand(n["kids"]))
        else:
            out.append(n)
    return out


def _tags_of_objs(objs, out):
    import htmltools as h

    for o in objs:
        if isinstance(o, h.Tag):
            out.append(o)
            _tags_of_objs(list(o.children), out)
    return out


def _tags_of_recipes(nodes, out):
    for n in nodes:
        if n["k"] == "tag":
            out.append(n)
            _tags_of_recipes(n["kids"], out)
    return out


def _append_at(nodes, target, extra):
    """copy of the forest in which the recipe node `target` (by identity) got one more child"""
    out = []
    for n in nodes:
        if n is target:
            out.append(dict(n, kids=list(n["kids"]) + [extra]))
        elif n["k"] == "tag":
            out.append(dict(n, kids=_append_at(n["kids"], target, extra)))
        else:
            out.append(n)
    return out


def stats(nodes, depth=0, acc=None):
    if acc is None:
        acc = {"tfy": 0, "nested": False, "empty-adjacent": False, "multi": False}
    lens = []
    for i, n in enumerate(nodes):
        if n["k"] == "tfy":
            acc["tfy"] += 1
            if depth > 0:
                acc["nested"] = True
            r = n["res"]
            ln = len(expand([n]))
            lens.append(ln)
            if ln == 0 and len(nodes) > 1:
                acc["empty-adjacent"] = True
            stats(r["kids"] if r["k"] in ("list", "tag") else [], depth + 1, acc)
        elif n["k"] == "tag":
            stats(n["kids"], depth, acc)
    if len(set(lens)) >= 2:
        acc["multi"] = True
    return acc


def collect_deps(objs):
    import htmltools as h

    out = []
    for o in objs:
        if isinstance(o, h.HTMLDependency):
            out.append(o)
        elif isinstance(o, h.Tag):
            out.extend(collect_deps(list(o.children)))
    return out


def body_expand(case, note):
    import htmltools as h

    from hv import build as B

    roots = case["roots"]
    exp = expand(roots)
    B.FLAKY_SEEN.clear()
    if case.get("prior"):
        # history: objects of the harness's self-rendering class *without* tagify() were rendered earlier in this process
        from hv.build import Repr

        h.TagList(Repr("<u>p</u>"), h.Tag("div", Repr("<u>q</u>"), "x")).render()
        h.HTMLDocument(h.Tag("p", Repr("<u>r</u>"))).render()
    real = h.TagList(*[build(r) for r in roots])
    ref = h.TagList(*[build(r) for r in exp])
    # history: a tagify() of user code raised during earlier renderings of the very same objects (each flaky
    # component fails once); the rendering that finally succeeds must be the right one
    failed = 0
    while True:
        try:
            r = real.render()
            break
        except B.FlakyError:
            failed += 1
            check(failed <= 200, "harness: flaky components keep failing")
    want = ref.get_html_string()
    check(r["html"] == want, "TagList.render()['html'] differs from rendering the expanded tree", want, r["html"])
    res = D.resolve(collect_deps(list(ref)), name=lambda d: d.name, version=lambda d: str(d.version))
    check([S.snap(d) for d in r["dependencies"]] == [S.snap(d) for d in res], "render()['dependencies'] are not the dependencies carried by the expansions", [repr(d) for d in res], [repr(d) for d in r["dependencies"]])
    tg = real.tagify()
    check(S.snap(tg) == S.snap(ref.tagify()), "tagify() result differs structurally from the expanded tree")
    check(tg.get_html_string() == want, "tagify().get_html_string() differs from the expanded tree")
    if isinstance(real[0], h.Tag) and roots[0]["k"] == "tag":
        t = real[0]
        rr = t.render()
        e0 = build(expand([roots[0]])[0])
        check(rr["html"] == e0.get_html_string(), "Tag.render()['html'] differs from rendering the expanded tag", e0.get_html_string(), rr["html"])
        check(str(t) == e0.get_html_string(), "str(tag) differs from rendering the expanded tag")
    d1 = h.HTMLDocument(*[build(x) for x in roots]).render(lib_prefix=case["lib"])
    d2 = h.HTMLDocument(*[build(x) for x in exp]).render(lib_prefix=case["lib"])
    check(d1["html"] == d2["html"], "HTMLDocument.render() differs from the document of the expanded tree", d2["html"], d1["html"])
    check([S.snap(d) for d in d1["dependencies"]] == [S.snap(d) for d in d2["dependencies"]], "HTMLDocument dependencies differ from the expanded tree's")
    # the lone-<html> and lone-<body> document shapes take their own code paths
    for wrap in ("html", "body", "html-head"):
        def doc_of(nodes):
            objs = [build(x) for x in nodes]
            if wrap == "body":
                return h.HTMLDocument(h.Tag("body", *objs))
            if wrap == "html":
                return h.HTMLDocument(h.Tag("html", h.Tag("body", *objs)))
            return h.HTMLDocument(h.Tag("html", h.Tag("head", *objs[:1]), h.Tag("body", *objs[1:])))

        dobj = doc_of(roots)
        w1 = dobj.render(lib_prefix=case["lib"])
        again = dobj.render(lib_prefix=case["lib"])
        check(again["html"] == w1["html"], f"rendering the same document (lone <{wrap}>) a second time gives different markup", w1["html"], again["html"])
        w2 = doc_of(exp).render(lib_prefix=case["lib"]) if wrap != "html-head" else None
        if wrap == "html-head":
            # expansion lengths differ, so build the expanded document from the expanded parts
            e_head, e_body = expand(roots[:1]), expand(roots[1:])
            w2 = h.HTMLDocument(h.Tag("html", h.Tag("head", *[build(x) for x in e_head]), h.Tag("body", *[build(x) for x in e_body]))).render(lib_prefix=case["lib"])
        check(w1["html"] == w2["html"], f"HTMLDocument.render() of a lone <{wrap}> differs from the document of the expanded tree", w2["html"], w1["html"])
        check([S.snap(d) for d in w1["dependencies"]] == [S.snap(d) for d in w2["dependencies"]], f"HTMLDocument (lone <{wrap}>) dependencies differ from the expanded tree's")
    # history: a document is rendered, its content then grows by a tagifiable object (not through doc.append), and it
    # is rendered again with the same arguments
    EXTRA = {"k": "tfy", "res": {"k": "list", "t": "taglist", "kids": [{"k": "text", "s": "late"}, {"k": "dep", "name": "late-dep", "version": "9", "head": "<late>"}]}}
    grown = False
    objs_d = [build(x) for x in roots]
    docm = h.HTMLDocument(*objs_d)
    docm.render(lib_prefix=case["lib"])
    for i, (rec, o) in enumerate(zip(roots, objs_d)):
        if rec["k"] == "tag" and isinstance(o, h.Tag):
            o.append(build(EXTRA))
            roots2 = list(roots)
            roots2[i] = dict(rec, kids=list(rec["kids"]) + [EXTRA])
            want2 = h.HTMLDocument(*[build(x) for x in expand(roots2)]).render(lib_prefix=case["lib"])
            got2 = docm.render(lib_prefix=case["lib"])
            check(got2["html"] == want2["html"], "a document rendered again after its content grew by a tagifiable object does not show the expansion", want2["html"], got2["html"])
            check([S.snap(d) for d in got2["dependencies"]] == [S.snap(d) for d in want2["dependencies"]], "... nor report its dependencies")
            grown = True
            break
    # a tree returned by tagify() is an ordinary tree: a tagifiable object added to it later is expanded like any other
    regrown = False
    t_tags, r_tags = _tags_of_objs(list(tg), []), _tags_of_recipes(exp, [])
    if t_tags and len(t_tags) == len(r_tags):
        j = case.get("pick", 0) % len(t_tags)
        target = t_tags[j]
        if case.get("pick", 0) % 2:
            target.children.append(build(EXTRA))
        else:
            target.append(build(EXTRA))
        exp2 = _append_at(exp, r_tags[j], EXTRA)
        want3 = h.TagList(*[build(x) for x in expand(exp2)])
        got3 = tg.render()
        check(got3["html"] == want3.get_html_string(), "a tagify() result to which a tagifiable object was added later does not render its expansion", want3.get_html_string(), got3["html"])
        res3 = D.resolve(collect_deps(list(want3)), name=lambda d: d.name, version=lambda d: str(d.version))
        check([S.snap(d) for d in got3["dependencies"]] == [S.snap(d) for d in res3], "... nor report its dependencies")
        regrown = True
    late = h.HTMLDocument()
    for x in roots:
        late.append(build(x))
    check(late.render(lib_prefix=case["lib"])["html"] == d2["html"], "HTMLDocument with content appended later differs")
    # a <head> supplied by a tagifiable object below a lone <html>
    if roots[0]["k"] == "tfy" and roots[0]["res"]["k"] == "tag" and not roots[0].get("repr") and roots[0].get("variant") != "flaky":
        head_tfy = dict(roots[0], res=dict(roots[0]["res"], name="head", ws=True))
        mk = lambda hd, rest: h.HTMLDocument(h.Tag("html", build(hd), h.Tag("body", *[build(x) for x in rest])))
        dd = mk(head_tfy, roots[1:])
        p1 = dd.render(lib_prefix=case["lib"])
        p2 = dd.render(lib_prefix=case["lib"])
        ref = mk(expand([head_tfy])[0], expand(roots[1:])).render(lib_prefix=case["lib"])
        check(p1["html"] == ref["html"], "document whose <head> comes from a tagifiable object differs from the expanded document", ref["html"], p1["html"])
        check(p2["html"] == p1["html"], "second rendering of a document whose <head> comes from a tagifiable object differs", p1["html"], p2["html"])
    # "at any positions": also as the value of a JSX component's prop (below an ordinary tag)
    in_prop = False
    def _jsx_ok(n):
        # what a component can carry: tags, text, dependencies (HTML() / self-rendering objects are refused by the JSX writer)
        return n["k"] in ("text", "dep", "headc") or (n["k"] == "tag" and all(_jsx_ok(k) for k in n["kids"]))

    if roots[0]["k"] == "tfy" and roots[0]["res"]["k"] == "tag" and roots[0].get("variant") in (None, "stored") and _jsx_ok(expand([roots[0]])[0]):
        from htmltools._jsx import JSXTag

        pa = h.Tag("div", JSXTag("Foo", title=build(roots[0]), id="c")).render()
        pb = h.Tag("div", JSXTag("Foo", title=build(expand([roots[0]])[0]), id="c")).render()
        check(pa["html"] == pb["html"], "a tagifiable object given as a component prop is not rendered as its expansion", pb["html"], pa["html"])
        check([S.snap(d) for d in pa["dependencies"]] == [S.snap(d) for d in pb["dependencies"]], "... nor are its dependencies reported")
        in_prop = True
    s = stats(roots)
    variants = {n.get("variant") for n in _all(roots) if n["k"] == "tfy"}
    note(s["tfy"] >= 2 and (s["multi"] or s["nested"]), *["variant:" + v for v in sorted(x for x in variants if x)], "empty-expansion-adjacent" if s["empty-adjacent"] else "", "nested-expansion" if s["nested"] else "", "no-tfy" if s["tfy"] == 0 else "",
         "earlier-rendering-raised" if failed else "", "prior-plain-instances+flex" if case.get("prior") and "flex" in variants else "",
         "tagifiable-as-component-prop" if in_prop else "",
         "document-grew-between-renderings" if grown else "", "tagify-result-grew-then-rendered" if regrown else "")


def has_plain_tfy(nodes):
    for n in nodes:
        if n["k"] == "tfy":
            if not n.get("repr"):
                return True
            # a self-rendering tagifiable is rendered through _repr_html_, its expansion is not visited
        elif n["k"] == "tag" and has_plain_tfy(n["kids"]):
            return True
    return False


def body_error(case, note):
    import htmltools as h

    roots = case["roots"]
    objs = [build(r) for r in roots]
    tl = h.TagList(*objs)
    plain = has_plain_tfy(roots)
    try:
        out = tl.get_html_string()
        raised = None
    except Exception as e:  # noqa - the statement only says "raises an error"
        out = None
        raised = e
    if plain:
        check(raised is not None, "get_html_string() emitted markup for a tree that still contains an un-expanded tagifiable object", out)
    else:
        check(raised is None, f"get_html_string() raised {type(raised).__name__} although every tagifiable object is self-rendering: {raised}")
    for r, o in zip(roots, objs):
        if r["k"] == "tag":
            try:
                o.get_html_string()
                ok = True
            except Exception:  # noqa
                ok = False
            check(ok == (not has_plain_tfy([r])), "Tag.get_html_string(): raising does not match 'contains an un-expanded, not self-rendering object'")
    note(plain and any(n["k"] == "tfy" and n.get("repr") for n in _all(roots)), "plain" if plain else "only-self-rendering")


def _all(nodes):
    for n in nodes:
        yield n
        if n["k"] == "tag":
            yield from _all(n["kids"])


def selftest():
    S.selftest()
    t = {"k": "tfy", "res": {"k": "list", "t": "taglist", "kids": [{"k": "text", "s": "a"}, {"k": "tfy", "res": {"k": "text", "s": "b"}}]}}
    assert expand([t, {"k": "text", "s": "c"}]) == [{"k": "text", "s": "a"}, {"k": "text", "s": "b"}, {"k": "text", "s": "c"}]


RULE = (
    "forests with tagifiable objects at generated positions whose expansion is a Tag, a TagList of 0-4 nodes, a str, HTML() or a "
    "dependency, nested up to 3 deep; non-trivial = >=2 tagifiable objects with different expansion lengths in one sibling list or a "
    "nested expansion; class 'empty-expansion-adjacent' required; distinct by sha1 of the recipe"
)

CLAUSES = [
    Clause(
        "expand",
        body_expand,
        strategy=lambda: st.fixed_dictionaries({"roots": forest(False), "lib": st.sampled_from(["lib", None]), "prior": st.booleans(), "pick": st.integers(0, 50)}),
        quick=700,
        thorough=10000,
        shards_quick=4,
        required=("empty-expansion-adjacent", "nested-expansion", "variant:stored", "variant:strsub", "variant:iter", "variant:flaky", "variant:flex", "variant:tagsub", "variant:listsub", "earlier-rendering-raised", "prior-plain-instances+flex", "document-grew-between-renderings", "tagify-result-grew-then-rendered", "tagifiable-as-component-prop"),
        rule="see RULE",
    ),
    Clause(
        "error",
        body_error,
        strategy=lambda: st.fixed_dictionaries({"roots": forest(True)}),
        quick=500,
        thorough=6000,
        shards_quick=2,
        required=("plain", "only-self-rendering"),
        rule="an un-expanded plain tagifiable next to a self-rendering one",
    ),
]
