"""C16 - class/style helpers and css() act as token-set and declaration algebra."""

from __future__ import annotations

from hypothesis import strategies as st

from hv import gen
from hv.core import Clause, check
from hv.oracle import snapshot as S

ASSUMPTIONS = [
    "class tokens passed to add_class/has_class are non-empty and whitespace-free; remove_class may be given the token surrounded by whitespace",
    "when remove_class is given a token that is not present, only 'tokens unchanged' is demanded (the value may be re-joined, an attribute without tokens may stay or go)",
    "css() keys are Python identifiers (ASCII ones decided exactly; for a non-ASCII capital letter lower case is demanded, a hyphen before it is allowed either way); values are None, str, int, float or lists of str; add_style(None) is not part of the statement",
]

TOKENS = ["foo", "foobar", "foo-x", "fo", "o", "bar", "Foo", "x", "a:b", "btn-primary", "\xe9", "f", "foo_", "b&r", '"q"']
# tokens made of characters that mean something to pattern languages (utility-class frameworks use them)
PATTERN_TOKENS = ["w-[200px]", "w-2", "w-p", "*:p-4", "hover:p-4", "fo?", "f*", "[a-z]", "a", "fo.", "(foo)", "foo|bar", "^foo", "foo$", "f+", "\\d", "*", "?"]
WS = [" ", "  ", "\t", "\n", " \n ", "\r\n", "\f", ""]


def tokens():
    return st.one_of(st.sampled_from(TOKENS), st.sampled_from(TOKENS), st.text(alphabet="abfoxr-_:&1", min_size=1, max_size=5), st.sampled_from(PATTERN_TOKENS))


def class_values():
    return st.one_of(
        st.none(),
        st.lists(st.tuples(st.sampled_from(WS), tokens()), max_size=5).map(lambda ps: "".join((w or " ") + t for w, t in ps)),
        st.lists(st.tuples(st.sampled_from(WS), tokens(), st.sampled_from(WS)), max_size=4).map(lambda ps: "".join(a + t + (b or " ") for a, t, b in ps)),
        st.sampled_from(["", " ", "foo foo", " foo  foo bar\tfoo ", "foobar foo"]),
    )


def decls():
    return st.one_of(st.sampled_from(["color: red;", "a:b;", "margin:0 auto;", ";", "x:y; z:w;", "font-family:'A B';"]), st.builds(lambda k, v: k + ":" + v + ";", gen.safe_text(1, 4), gen.safe_text(0, 4)))


def ops():
    pad = st.sampled_from(WS)
    return st.lists(
        st.one_of(
            st.tuples(st.just("add_class"), tokens(), st.booleans()).map(list),
            st.tuples(st.just("remove_class"), tokens(), pad, pad).map(list),
            st.tuples(st.just("remove_class"), tokens(), pad, pad).map(list),
            st.tuples(st.just("has_class"), tokens()).map(list),
            st.tuples(st.just("add_style"), decls(), st.booleans(), st.booleans()).map(list),
            st.tuples(st.just("add_style_bad"), st.one_of(st.sampled_from(["color: red", "", "a:b; c", " ", "color:red; ", "a:b;\n", "x:y;\t", "k:v;;  "]), gen.safe_text(0, 5).filter(lambda s: not s.endswith(";"))), st.booleans(), st.booleans()).map(list),
        ),
        min_size=1,
        max_size=10,
    )


def case_strategy():
    return st.fixed_dictionaries({"cls": class_values(), "style": st.none() | decls() | st.just("k:v"), "other": st.booleans(), "ops": ops()})


def body_history(case, note):
    import htmltools as h

    kw = {}
    if case["cls"] is not None:
        kw["class_"] = case["cls"]
    if case["style"] is not None:
        kw["style"] = case["style"]
    if case["other"]:
        kw["id"] = "keep"
        kw["data_q"] = "foo bar"
    tag = h.Tag("div", "child", **kw)
    toks = (case["cls"] or "").split()
    toks0 = list(toks)
    style = case["style"]
    n_ops = 0
    classes = set()
    interesting = len(toks) != len(set(toks))
    for op in case["ops"]:
        name = op[0]
        others_before = {k: v for k, v in tag.attrs.items() if k not in ("class", "style")}
        kids_before = list(tag.children)
        if name == "add_class":
            tok, prepend = op[1], op[2]
            r = tag.add_class(tok, prepend=prepend)
            check(r is tag, "add_class does not return the tag itself")
            toks = ([tok] + toks) if prepend else (toks + [tok])
            got = (tag.attrs.get("class") or "").split()
            check(got == toks, f"add_class({tok!r}, prepend={prepend}) disturbed the tokens", toks, got)
            check(tag.has_class(tok), "has_class is false right after add_class")
            check((got[0] if prepend else got[-1]) == tok, "add_class did not put the token first/last")
        elif name == "remove_class":
            tok = op[1]
            arg = op[2] + tok + op[3]
            present = tok in toks
            if present and any(t != tok and tok in t for t in toks):
                interesting = True
            r = tag.remove_class(arg)
            check(r is tag, "remove_class does not return the tag itself")
            new = [t for t in toks if t != tok]
            got_attr = tag.attrs.get("class")
            got = (got_attr or "").split()
            check(got == new, f"remove_class({arg!r}) did not remove exactly every occurrence of the token and keep the others in order", new, got)
            if present and not new:
                check("class" not in tag.attrs, "class attribute kept although no token remains", got_attr)
                classes.add("attribute-dropped")
            if present:
                classes.add("removed-present")
            toks = new
        elif name == "has_class":
            pass
        elif name == "add_style":
            decl, prepend, as_html = op[1], op[2], op[3]
            arg = h.HTML(decl) if as_html else decl
            r = tag.add_style(arg, prepend=prepend)
            check(r is tag, "add_style does not return the tag itself")
            old = style
            if style is None:
                style = decl
            else:
                style = (decl + " " + style) if prepend else (style + " " + decl)
            got = tag.attrs.get("style")
            check(got is not None, "add_style stored nothing")
            if as_html or isinstance(got, h.HTML):
                # merged with HTML(): the result is HTML(); escaping of plain parts is C03's subject
                check(isinstance(got, h.HTML), "style merged with HTML() is not HTML()")
                if as_html:
                    ok = str(got).startswith(decl) if (prepend or old is None) else str(got).endswith(decl)
                    check(ok, "HTML() declaration not placed verbatim at the requested end", decl, str(got))
                style = str(got)
            else:
                check(type(got) is str and got == style, "add_style did not append/prepend the declaration", style, got)
        elif name == "add_style_bad":
            decl, prepend, as_html = op[1], op[2], op[3]
            arg = h.HTML(decl) if as_html else decl
            before = S.snap(tag)
            try:
                tag.add_style(arg, prepend=prepend)
                raised = None
            except ValueError:
                raised = "ValueError"
            except Exception as e:  # noqa
                raised = type(e).__name__
            check(raised == "ValueError", f"add_style({decl!r}) without trailing semicolon: expected ValueError, got {raised}")
            check(S.snap(tag) == before, "rejected add_style modified the tag")
            classes.add("style-rejected")
        n_ops += 1
        classes.add("op:" + name)
        # invariants after every step
        for q in TOKENS + [op[1]] if name != "add_style" and name != "add_style_bad" else TOKENS:
            check(tag.has_class(q) == (q in toks), f"has_class({q!r}) is not whitespace-token membership", toks, tag.attrs.get("class"))
        check({k: v for k, v in tag.attrs.items() if k not in ("class", "style")} == others_before, "another attribute was disturbed")
        if name not in ("add_style",):
            sv = tag.attrs.get("style")
            check((sv is None and style is None) or (sv is not None and str(sv) == style), "style changed by a class operation", style, sv)
        else:
            check((tag.attrs.get("class") or "").split() == toks, "class changed by a style operation")
        check(len(tag.children) == len(kids_before), "children changed")
    blob = repr(case["ops"])
    note(interesting and n_ops >= 3, *sorted(classes), "pattern-like-token-removed" if any(op[0] == "remove_class" and op[1] in PATTERN_TOKENS and len(toks0) >= 2 for op in case["ops"]) else "")


# ---------------------------------------------------------------- css()


def css_key_model(k: str) -> str:
    out = []
    for c in k:
        if "A" <= c <= "Z":
            out.append("-" + c.lower())
        elif c == "_":
            out.append("-")
        else:
            out.append(c)
    return "".join(out)


def css_key_models(k: str) -> set:
    """acceptable spellings: 'hyphenated lower case' is exact for ASCII names; for a non-ASCII capital the statement
    fixes lower case but not whether it counts as a camelCase hump, so both readings are accepted"""
    a = css_key_model(k).lower()
    b = "".join(("-" + c.lower()) if c != c.lower() else ("-" if c == "_" else c) for c in k)
    return {a, b}


def css_case():
    key = st.one_of(
        st.sampled_from(["color\u00c9cran", "\u00c4rger_level", "font\u03a9mega", "\u0426\u0432\u0435\u0442_\u0444\u043e\u043d\u0430", "stra\u00dfe_A", "\u01c5x", "a\u0130b", "\u00e9t\u00e9_Size"]),
        st.builds(lambda a, b: a + b, st.sampled_from("abX_\u00c9\u00e9\u03a9"), st.text(alphabet="abXY_09\u00c9\u00e9\u03a9\u0416", max_size=6)),
        st.sampled_from(["font_size", "fontSize", "backgroundColor", "background_color", "color", "MozBoxSizing", "margin_top_", "marginTop_", "_webkit_x", "aB_cD", "a_b_c_d", "XMLHttp", "a1_B2", "z__y", "font_Size"]),
        st.builds(lambda a, b: a + b, st.sampled_from("abcXYZ_"), st.text(alphabet="abcXYZ_09", max_size=8)),
    ).filter(lambda k: k != "collapse_" and k.isidentifier())
    val = st.one_of(st.none(), gen.safe_text(0, 5), st.sampled_from(["12px", "red", "", "a b", "url('x;y')", ";"]), st.integers(-5, 100), st.floats(allow_nan=False, allow_infinity=False, width=16), st.lists(gen.safe_text(1, 3), max_size=3))
    return st.fixed_dictionaries(
        {
            "kw": st.lists(st.tuples(key, val).map(list), max_size=5, unique_by=lambda p: p[0]),
            "collapse": st.sampled_from(["<default>", "<default>", "", "\n", " ", "; "]),
            "bad_collapse": st.sampled_from([None, None, None, 1, 2.5, ["x"], b"x"]),
        }
    )


def body_css(case, note):
    import htmltools as h

    kw = {k: v for k, v in case["kw"]}
    sep = "" if case["collapse"] == "<default>" else case["collapse"]
    exp = ""
    decls = []
    for k, v in case["kw"]:
        if v is None:
            continue
        vs = " ".join(v) if isinstance(v, list) else str(v)
        exp += css_key_model(k).lower() + ":" + vs + ";" + sep
        decls.append((css_key_models(k), ":" + vs + ";" + sep))
    exp_v = None if exp == "" else exp
    got = h.css(**kw) if case["collapse"] == "<default>" else h.css(collapse_=sep, **kw)
    check(got is None or type(got) is str, "css() does not return str or None", type(got).__name__)
    if got is None or exp_v is None:
        check(got == exp_v, "css() output differs from one name:value; per non-None argument in order", exp_v, got)
    else:
        pos = {0}
        for names, rest in decls:
            pos = {p + len(nm) + len(rest) for p in pos for nm in names if got.startswith(nm + rest, p)}
            check(bool(pos), "css() output differs from one name:value; per non-None argument in order", exp_v, got)
        check(len(got) in pos, "css() output has trailing text", exp_v, got)
    if case["collapse"] == "<default>":
        t = h.Tag("div", style="a:b;")
        try:
            r = t.add_style(got)
        except Exception as e:  # noqa
            check(False, f"add_style rejected css() output {got!r}: {type(e).__name__}: {e}")
        check(r is t, "add_style does not return the tag")
        check(t.attrs["style"] == ("a:b;" if got is None else "a:b; " + got), "add_style(css(...)) stored an unexpected value", got, t.attrs["style"])
        t2 = h.Tag("div", style=got)
        check(("style" in t2.attrs) == (got is not None), "style=None from css() was not omitted")
    if case["bad_collapse"] is not None:
        try:
            h.css(collapse_=case["bad_collapse"], **kw)
            raised = None
        except TypeError:
            raised = "TypeError"
        except Exception as e:  # noqa
            raised = type(e).__name__
        check(raised == "TypeError", f"css(collapse_={case['bad_collapse']!r}) expected TypeError, got {raised}")
    keys = [k for k, v in case["kw"] if v is not None]
    collide = len({css_key_model(k) for k in keys}) < len(keys)
    note(len(keys) >= 2 and any(c.isupper() or c == "_" for k in keys for c in k), "none-only" if case["kw"] and not keys else "", "camel" if any(c.isupper() for k in keys for c in k) else "", "bad-collapse" if case["bad_collapse"] is not None else "", "same-property-twice" if collide else "",
         "non-ascii-capital-in-name" if any(ord(c) > 127 and c != c.lower() for k in keys for c in k) else "")


def selftest():
    assert css_key_model("backgroundColor") == "background-color" and css_key_model("font_size") == "font-size" and css_key_model("XMLHttp") == "-x-m-l-http"


RULE = (
    "history: one tag with a generated initial class value (absent, duplicates, tabs/newlines, leading/trailing space) and style, then 1-10 "
    "add_class / remove_class (token padded with whitespace) / has_class / add_style (with and without trailing semicolon, str and HTML) operations with "
    "tokens from a colliding pool (foo, foobar, foo-x, fo, o, Foo, ...); non-trivial = >=3 operations and a removal of a token that is a proper "
    "substring of another present token, or a duplicate token. css: 0-5 keyword arguments with camelCase/underscore keys; non-trivial = >=2 non-None "
    "arguments with an upper-case letter or underscore; distinct by sha1 of the recipe"
)

CLAUSES = [
    Clause("history", body_history, strategy=case_strategy, quick=1000, thorough=15000, shards_quick=3, required=("attribute-dropped", "removed-present", "style-rejected", "op:add_class", "op:add_style", "op:has_class", "pattern-like-token-removed"), rule="see RULE"),
    Clause("css", body_css, strategy=css_case, quick=1200, thorough=15000, shards_quick=2, required=("none-only", "camel", "bad-collapse", "same-property-twice", "non-ascii-capital-in-name"), rule="see RULE"),
]
