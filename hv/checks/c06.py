"""C06 - block layout follows the documented line and indentation rules (reference model L).

small : every sibling sequence of length <= 3 over 13 kinds under 7 kinds of parent, at two depths  (exhaustive)
model : random validly nested trees against L                                                     (Hypothesis)
shift : indent / eol metamorphic relation, independent of L                                      (Hypothesis)
"""

from __future__ import annotations

from hypothesis import strategies as st

from hv import gen
from hv.build import build
from hv.core import Clause, check
from hv.oracle import layout as L

ASSUMPTIONS = [
    "L is a line-list construction written from the Note in the Tag docstring / the C06 statement; text and attribute values are metacharacter-free so escaping plays no role",
    "only validly nested trees (no whitespace-enabled tag below an inline tag) are generated, as the statement says",
]

EOLS = ["\n", "\r\n", "", " ", "\t", "EOL", "<!---->\n", "\n\n"]
SENT = "\x1e"


def case_strategy():
    return st.fixed_dictionaries(
        {
            "roots": st.builds(
                lambda f, bulk: gen.number(_bulk([gen.make_valid(n) for n in f], bulk)),
                gen.layout_forest(newlines=True, meta=True, blank=("", "", " ", "\t", "\xa0", "\n")),
                st.sampled_from([0] * 40 + [501, 1030]),
            ),
            # history: the very objects were rendered earlier as children of an inline element (a nesting for which no
            # layout is promised); rendering them afterwards on their own is inside the statement again
            "prior_inline_parent": st.sampled_from([False, False, True, "failed"]),
            "indent": st.one_of(st.integers(0, 8), st.integers(0, 8), st.integers(9, 30)),
            "eol": st.sampled_from(EOLS),
            "share": st.one_of(st.just(0), st.integers(1, 10**6)),
        }
    )


def _bulk(roots, n):
    """a long child list: the first tag's (childless / leaf) children repeated until there are more than n"""
    if not n:
        return roots
    for i, r in enumerate(roots):
        if r["k"] == "tag" and r["kids"]:
            kids = [k for k in r["kids"] if k["k"] != "tag" or not k["kids"]][:3] or [{"k": "text", "s": "x"}]
            return roots[:i] + [dict(r, kids=kids * (n // len(kids) + 1))] + roots[i + 1 :]
    return roots


def _stats(n):
    """(has block tag with >=2 visible kids, one block and one non-block)"""
    if n["k"] != "tag":
        return False
    kids = L.visible(n["kids"])
    here = n["ws"] and len(kids) >= 2 and any(L.is_block(k) for k in kids) and any(not L.is_block(k) for k in kids)
    return here or any(_stats(k) for k in kids)


def _has_blank(n):
    return bool(n.get("blank")) or (n["k"] == "tag" and any(_has_blank(k) for k in n["kids"]))


def body_model(case, note):
    import htmltools as h

    roots, indent, eol = case["roots"], case["indent"], case["eol"]
    shared = bool(case.get("share"))
    if shared:
        roots = gen.share_some(roots, case["share"])  # some children occur again as the very same object
    memo: dict = {}
    objs = [build(r, memo) for r in roots]
    if case.get("prior_inline_parent") == "failed":
        from hv.history import failed_operations

        failed_operations(indent, eol, key=case["roots"])
    elif case.get("prior_inline_parent"):
        for o in objs:
            h.Tag("span", "lead", o, _add_ws=False).get_html_string(indent, eol)
            h.Tag("a", h.Tag("b", o, _add_ws=False), "tail", _add_ws=False).get_html_string()
    tl = h.TagList(*objs)
    got = tl.get_html_string(indent, eol)
    exp = L.render_list(roots, indent, eol)
    check(got == exp, "TagList.get_html_string differs from the documented layout", exp, got)
    got2 = tl.get_html_string(indent, eol, add_ws=False)
    exp2 = L.render_list(roots, indent, eol, add_ws=False)
    check(got2 == exp2, "TagList.get_html_string(add_ws=False) differs from the documented layout", exp2, got2)
    nt = False
    for r, o in zip(roots, objs):
        if r["k"] != "tag":
            continue
        got = o.get_html_string(indent, eol)
        exp = L.render_tag(r, indent, eol)
        check(got == exp, f"Tag.get_html_string({indent}, {eol!r}) differs from the documented layout", exp, got)
        if indent == 0 and eol == "\n":
            check(o.get_html_string() == exp, "default arguments differ from (0, '\\n')")
        nt = nt or _stats(r)
    kinds = {r["k"] for r in roots}
    blank = any(_has_blank(r) for r in roots)
    note(nt, "blank-leaf" if blank else "", "same-object-twice" if shared and memo else "", "list-root-mixed" if len(roots) >= 2 and "tag" in kinds and len(kinds) > 1 else "", "eol:" + repr(eol), "indent>0" if indent else "",
         "rendered-earlier-below-an-inline-element" if case.get("prior_inline_parent") is True and nt else "", "earlier-operations-raised" if case.get("prior_inline_parent") == "failed" and nt else "",
         "str-subclass-text" if '"sub": true' in __import__("json").dumps(roots) else "", "more-than-500-children" if any(r["k"] == "tag" and len(r["kids"]) > 500 for r in roots) else "")


def body_shift(case, note):
    """Metamorphic, independent of L: indent=k shifts every layout line by 2k spaces; eol replaces the separator."""
    import htmltools as h

    roots, k, eol = case["roots"], case["indent"], case["eol"]
    objs = [build(r) for r in roots]
    targets = [("list", h.TagList(*objs))] + [("tag", o) for r, o in zip(roots, objs) if r["k"] == "tag"]
    nt = False
    for label, x in targets:
        base = x.get_html_string(0, SENT)
        shifted = x.get_html_string(k, SENT)
        bl = base.split(SENT)
        sl = shifted.split(SENT)
        if label == "list" and not L.visible(roots):
            check(base == "" and shifted == "", "a list without visible items renders non-empty")
            continue
        check(len(bl) == len(sl), f"{label}: number of layout lines changes with indent", base, shifted)
        for a, b in zip(bl, sl):
            check(b == "  " * k + a, f"{label}: line not shifted by exactly {2*k} spaces", a, b)
        other = x.get_html_string(k, eol)
        check(other == eol.join(sl), f"{label}: eol={eol!r} is not a pure substitution of the line separator", other, shifted)
        nt = nt or len(bl) >= 3
    note(nt and k > 0)


def enum_small(tier):
    from hv.checks.c07 import enum_positions

    yield from enum_positions(tier)


def body_small(case, note):
    """every sibling sequence of length <= 3 over 13 kinds under 7 kinds of parent, also one level deeper, against L"""
    import htmltools as h
    from hv.checks.c07 import _pos_node, _pos_wrap

    sibs = [_pos_node(k) for k in case["sibs"]]
    if case["parent"] == "script":
        sibs = [x for x in sibs if x["k"] in ("text", "html")]
    roots = [gen.make_valid(n) for n in _pos_wrap(case["parent"], sibs)]
    outer = [{"k": "tag", "name": "main", "ws": True, "attrs": [], "kids": [{"k": "text", "s": "o"}] + roots}]
    for forest in (roots, outer):
        tl = h.TagList(*[build(r) for r in forest])
        for indent, eol in ((0, "\n"), (3, "\r\n"), (1, "")):
            got, exp = tl.get_html_string(indent, eol), L.render_list(forest, indent, eol)
            check(got == exp, f"{case['sibs']} under a {case['parent']} parent: layout differs from the documented rules (indent={indent}, eol={eol!r})", exp, got)
        check(str(tl) == L.render_list(forest, 0, "\n"), "str() differs from the documented layout")
    note(True, "parent:" + case["parent"])


def selftest():
    L.selftest()


RULE = (
    "validly nested trees over block/inline/void tags, text with embedded newlines, HTML(), _repr_html_ objects, metadata; "
    "indent 0-8; eol from 8 strings incl. '', 'EOL', '<!---->\\n'; non-trivial (model) = a block tag with >=2 visible children "
    "of which one is block and one is not; (shift) = >=3 layout lines and indent>0; distinct by sha1 of the recipe"
)

CLAUSES = [
    Clause("small", body_small, source="enum", enum=enum_small, shards_quick=8, shards_thorough=16, rule="every case"),
    Clause("model", body_model, strategy=case_strategy, quick=800, thorough=12000, shards_quick=4, required=("list-root-mixed", "indent>0", "blank-leaf", "same-object-twice", "rendered-earlier-below-an-inline-element", "more-than-500-children", "earlier-operations-raised", "str-subclass-text"), rule="block with block and non-block children"),
    Clause("shift", body_shift, strategy=case_strategy, quick=400, thorough=6000, shards_quick=2, rule=">=3 lines, indent>0"),
]
