"""C20 - JSX components convert purely and surface all dependencies.

component : generated component trees; purity by structural snapshot, dependency multiset,
            the React.createElement expression read back with J and compared with the
            component model                                                  (Hypothesis)
allowlist : props outside a declared allow-list are rejected at construction   (Hypothesis)
"""

from __future__ import annotations

import os

from hypothesis import strategies as st

from hv import gen
from hv.build import Tfy, build
from hv.core import Clause, check
from hv.oracle import jsread as J
from hv.oracle import snapshot as S

ASSUMPTIONS = [
    "strings (children, prop values, dict keys) contain no backslash, CR, LF, U+2028/9; jsx() expressions come from a balanced grammar and never start like a structured form",
    "HTML() children inside JSX and tagifiables expanding to a TagList are documented as unsupported and not generated; dependencies inside list/dict props are not generated",
    "inside a component a tagifiable returns its expansion as built (like the repository's own test), not pre-tagified",
    "a jsx() string used as a *child* is written as a string literal, exactly like any other str child (the pinned tests fix this)",
]

STR_ALPHA = "abcXYZ 019_-.,:;!?'\"<>&/(){}[]=+*\xe9中\U0001F600"


def texts(max_size=6):
    return st.one_of(st.text(alphabet=STR_ALPHA, max_size=max_size), st.text(alphabet=STR_ALPHA, max_size=max_size), st.sampled_from(["</script>", "</SCRIPT >", "<!--", "a</script", "<script>", "]]>", "&lt;", "${x}", "`"]))


JSX_EXPRS = [
    "() => console.log('here')",
    "x => x + 1",
    "(a, b) => [a, b]",
    "window.foo.bar",
    "f(1, 'a,b', [2, 3])",
    "`tpl, ${x}`",
    "cb",
    "a ? b : c",
    "(function() { return {k: [1, 2]}; })()",
    "'single, quoted )'",
    "1 + 2",
]

DEPS = [
    {"k": "dep", "name": "a", "version": "1.1", "source": {"subdir": "foo"}, "script": {"src": "a1.js"}},
    {"k": "dep", "name": "b", "version": "2.0", "head": "<x>"},
    {"k": "dep", "name": "a", "version": "1.0"},
    {"k": "meta"},
]

COMP_NAMES = ["Foo", "Bar", "Foo.Bar", "ui.Button", "A", "X1", "ns.sub.Widget"]
TAG_NAMES = ["div", "span", "p", "b", "ul", "input", "br", "img", "hr", "script", "style", "textarea", "title", "option"]
PROP_NAMES = ["id", "class_", "x", "x_", "x__", "data_a", "onClick", "value", "for_", "aB_c", "title"]


def scalars():
    return st.one_of(
        st.just({"t": "none"}),
        st.builds(lambda b: {"t": "bool", "v": b}, st.booleans()),
        st.builds(lambda v: {"t": "num", "v": v}, st.one_of(st.integers(-1000, 10**6), st.floats(allow_nan=False, allow_infinity=False, width=32), st.sampled_from([0, 1, 2.0, -0.5, 1e21]))),
        st.builds(lambda s: {"t": "str", "v": s}, texts()),
        st.builds(lambda e: {"t": "jsx", "v": e}, st.sampled_from(JSX_EXPRS)),
    )


def prop_values(tag_like):
    sc = gen.opaque(scalars())
    lst = st.builds(lambda t, v: {"t": "list", "tuple": t, "v": v}, st.booleans(), st.lists(sc, max_size=3))
    dct = st.builds(lambda items: {"t": "dict", "v": items}, st.lists(st.tuples(st.sampled_from(["k", "a", "b1", "x-y", "K", "style", "class", "children"]), sc).map(list), max_size=3, unique_by=lambda p: p[0]))
    nested = st.builds(lambda t, v: {"t": "list", "tuple": t, "v": v}, st.booleans(), st.lists(st.one_of(sc, lst, dct), max_size=3))
    tagv = st.builds(lambda r: {"t": "node", "v": r}, tag_like)
    return st.one_of(sc, sc, lst, dct, nested, tagv)


def style_values():
    pairs = st.lists(st.tuples(st.sampled_from(["color", "margin", "font-size", "--v"]), st.sampled_from(["red", "1rem", "0 auto", "12px"])).map(list), max_size=3, unique_by=lambda p: p[0])
    return st.one_of(
        st.builds(lambda p: {"t": "style_dict", "v": p}, pairs),
        st.builds(lambda p: {"t": "style_str", "v": p}, pairs),
        st.just({"t": "none"}),
    )


def nodes():
    text = st.builds(lambda s: {"k": "str", "s": s}, texts())
    num = st.builds(lambda v: {"k": "num", "v": v}, st.integers(-5, 500))
    jx = st.builds(lambda e: {"k": "jsxchild", "s": e}, st.sampled_from(JSX_EXPRS))
    dep = st.sampled_from(DEPS)
    leaf = gen.opaque(st.one_of(text, text, num, jx, dep))

    def tag(ch, tag_like):
        attrs = st.lists(st.tuples(st.sampled_from(["id", "class", "title", "data-x"]), texts(4)).map(list), max_size=2, unique_by=lambda p: p[0])
        style = st.one_of(st.none(), st.lists(st.tuples(st.sampled_from(["color", "margin"]), st.sampled_from(["red", "1rem"])).map(list), min_size=1, max_size=2, unique_by=lambda p: p[0]))
        return st.builds(
            lambda n, ws, a, stl, k: {"k": "tag", "name": n, "ws": ws, "attrs": a, "style": stl, "kids": k},
            st.sampled_from(TAG_NAMES),
            st.booleans(),
            attrs,
            style,
            st.lists(ch, max_size=3),
        )

    def comp(ch, tag_like, max_kids=4):
        props = st.lists(st.tuples(st.sampled_from(PROP_NAMES), prop_values(tag_like)).map(list), max_size=3, unique_by=lambda p: p[0])
        return st.builds(
            lambda n, p, stl, k, hows: {"k": "jsx", "name": n, "props": p + ([["style", stl]] if stl is not None else []), "kids": k, "hows": hows},
            st.sampled_from(COMP_NAMES),
            props,
            st.one_of(st.none(), st.none(), style_values()),
            st.lists(ch, max_size=max_kids),
            st.lists(st.sampled_from(["ctor", "ctor", "list", "append", "extend", "extend-gen", "extend-tuple"]), min_size=4, max_size=4),
        )

    def tfy(ch):
        return st.builds(
            lambda r, fl: {"k": "tfy", "res": r, "raw": True, "flaky": fl},
            st.one_of(ch.filter(lambda n: n["k"] in ("tag", "str", "dep")), st.sampled_from([DEPS[0], DEPS[1], {"k": "str", "s": "expanded"}])),
            st.sampled_from([False, False, False, True]),  # a component whose tagify() raises the first time it is asked
        )

    leaf_comp = st.just({"k": "jsx", "name": "Leaf", "props": [], "kids": [], "hows": ["ctor"] * 4})
    tfy_tag = tfy(tag(leaf, None))
    with_tfy = st.one_of(leaf, tfy_tag)
    # values of tag/component-valued props: tags and components that may contain tagifiable descendants, and
    # tagifiable objects themselves (expanding to a tag)
    tfy_to_tag = st.builds(lambda r: {"k": "tfy", "res": r, "raw": True}, tag(leaf, None))  # as a prop value: expands to a tag
    simple_taglike = st.one_of(tag(with_tfy, None), comp(with_tfy, leaf_comp), comp(leaf, st.one_of(tag(with_tfy, None), tfy_to_tag), max_kids=0), tfy_to_tag)
    n1 = st.one_of(leaf, tag(leaf, None), comp(leaf, simple_taglike), tfy(tag(leaf, None)))
    n2 = st.one_of(leaf, tag(n1, None), comp(n1, simple_taglike), tfy(n1))
    return comp(st.one_of(n2, n2, leaf), simple_taglike)


# ---------------------------------------------------------------- build


def jsx_mod():
    from htmltools import _jsx

    return _jsx


def build_prop(v):
    t = v["t"]
    if t == "none":
        return None
    if t in ("bool", "num", "str"):
        return v["v"]
    if t == "jsx":
        return jsx_mod().jsx(v["v"])
    if t == "list":
        items = [build_prop(x) for x in v["v"]]
        return tuple(items) if v.get("tuple") else items
    if t == "dict":
        return {k: build_prop(x) for k, x in v["v"]}
    if t == "node":
        return build_node(v["v"])
    if t == "style_dict":
        return {k: x for k, x in v["v"]}
    if t == "style_str":
        return "".join(k + ":" + x + ";" for k, x in v["v"])
    raise ValueError(t)


class RawTfy(Tfy):
    def tagify(self):
        self.calls += 1
        return build_node(self.res)


class FlakyRawTfy(RawTfy):
    """fails the first time the component described by this recipe node is asked (state per recipe node)"""

    def __init__(self, res, raw, key):
        super().__init__(res, raw)
        self.key = key

    def tagify(self):
        from hv import build as B

        if self.key not in B.FLAKY_SEEN:
            B.FLAKY_SEEN.add(self.key)
            raise B.FlakyError("not ready yet")
        return super().tagify()


def build_node(r):
    import htmltools as h

    k = r["k"]
    if k == "str":
        return r["s"]
    if k == "num":
        return r["v"]
    if k == "jsxchild":
        return jsx_mod().jsx(r["s"])
    if k in ("dep", "meta"):
        return build(r)
    if k == "tfy":
        if r.get("flaky"):
            return FlakyRawTfy(r["res"], True, id(r))
        return RawTfy(r["res"], True)
    if k == "tag":
        kw = {a: v for a, v in r["attrs"]}
        if r.get("style"):
            kw["style"] = "".join(a + ":" + b + ";" for a, b in r["style"])
        return h.Tag(r["name"], *[build_node(c) for c in r["kids"]], _add_ws=r["ws"], **kw)
    if k == "jsx":
        kids = [build_node(c) for c in r["kids"]]
        hows = r["hows"]
        ctor, later = [], []
        switched = False
        for i, c in enumerate(kids):
            how = hows[i % len(hows)]
            if how in ("append", "extend", "extend-gen", "extend-tuple"):
                switched = True
            if switched:
                later.append((how, c))
            elif how == "list":
                ctor.append([c])
            else:
                ctor.append(c)
        comp = jsx_mod().JSXTag(r["name"], *ctor, **{p: build_prop(v) for p, v in r["props"]})
        for how, c in later:
            if how == "extend":
                comp.extend([c])
            elif how == "extend-gen":
                comp.extend(x for x in [c])  # any iterable, also one that can be consumed only once
            elif how == "extend-tuple":
                comp.extend((c,))
            else:
                comp.append(c)
        return comp
    raise ValueError(k)


# ---------------------------------------------------------------- model


def norm(x: str) -> str:
    return gen.norm_attr_name(x)


def model_prop(v):
    t = v["t"]
    if t == "none":
        return ("raw", "null")
    if t == "bool":
        return ("raw", "true" if v["v"] else "false")
    if t == "num":
        return ("raw", str(v["v"]))
    if t == "str":
        return ("str", v["v"])
    if t == "jsx":
        return ("raw", v["v"].strip())
    if t == "list":
        return ("arr", [model_prop(x) for x in v["v"]])
    if t == "dict":
        return ("obj", [(k, model_prop(x)) for k, x in v["v"]])
    if t == "node":
        return model_node(v["v"])
    raise ValueError(t)


def model_style(v):
    if v["t"] == "none":
        return ("obj", [])
    return ("obj", [(k, ("str", x)) for k, x in v["v"]])


def model_node(r):
    """expected expression for a visible node; None for metadata"""
    k = r["k"]
    if k == "str":
        return ("str", r["s"])
    if k == "num":
        return ("str", str(r["v"]))
    if k == "jsxchild":
        return ("str", r["s"])
    if k in ("dep", "meta"):
        return None
    if k == "tfy":
        return model_node(r["res"])
    if k == "tag":
        props = [(a, ("str", v)) for a, v in r["attrs"]]
        if r.get("style"):
            props.append(("style", ("obj", [(a, ("str", b)) for a, b in r["style"]])))
        kids = [m for m in (model_node(c) for c in r["kids"]) if m is not None]
        bare = not props and not r["kids"]
        return ("call", ("q", r["name"]), None if bare else props, kids)
    if k == "jsx":
        props = [(p, model_style(v) if p == "style" else model_prop(v)) for p, v in effective_props(r)]
        kids = [m for m in (model_node(c) for c in r["kids"]) if m is not None]
        bare = not props and not r["kids"]
        return ("call", ("id", r["name"]), None if bare else props, kids)
    raise ValueError(k)


def effective_props(r):
    """props as stored: later raw names that normalise to the same name replace the value, first position kept"""
    d = {}
    for p, v in r["props"]:
        d[norm(p)] = v
    return list(d.items())


def model_metadata(r, out):
    """recipes of every metadata node the conversion must surface"""
    k = r["k"]
    if k in ("dep", "meta"):
        out.append(r)
    elif k == "tfy":
        model_metadata(r["res"], out)
    elif k == "tag":
        for c in r["kids"]:
            model_metadata(c, out)
    elif k == "jsx":
        for p, v in effective_props(r):
            if v["t"] == "node":
                model_metadata(v["v"], out)
        for c in r["kids"]:
            model_metadata(c, out)
    return out


def normalise(v):
    """None props == empty props for comparison of bare vs. '{}' forms is NOT applied: the writer's two forms are both read exactly"""
    return v


def _has_raw_tag(r):
    if r["k"] == "tag" and r["name"] in ("script", "style") and any(c["k"] == "str" for c in r["kids"]):
        return True
    kids = list(r.get("kids", [])) if r["k"] in ("tag", "jsx") else ([r["res"]] if r["k"] == "tfy" else [])
    if r["k"] == "jsx":
        kids += [v["v"] for _, v in r["props"] if isinstance(v, dict) and v.get("t") == "node"]
    return any(_has_raw_tag(c) for c in kids)


def extract_expression(script_html: str) -> str:
    a = script_html.index("ReactDOM.render(") + len("ReactDOM.render(")
    b = script_html.rindex("\n  , container);")
    return script_html[a:b]


def body_component(case, note):
    import htmltools as h

    from hv import build as B

    r = case["comp"]
    B.FLAKY_SEEN.clear()
    comp = build_node(r)
    base = S.snap(comp)
    # history: conversions of this very component that raised in user code (each flaky descendant fails once)
    failed = 0
    while True:
        try:
            first = comp.tagify()
            break
        except B.FlakyError:
            failed += 1
            check(failed < 100, "harness: flaky components keep failing")
            check(S.snap(comp) == base, "a conversion that failed in user code changed the component", _diff(base, S.snap(comp)))
    if failed:
        # the first conversion that succeeds after failed ones carries exactly the component's metadata
        m0 = [c for c in first.children if isinstance(c, h.MetadataNode)][2:]
        check(sorted(repr(S.snap(m)) for m in m0) == sorted(repr(S.snap(build(x))) for x in model_metadata(r, [])), "after conversions that raised in user code, the next conversion does not carry exactly the component's metadata nodes", len(m0))
    results = []
    for i in range(case["repeat"]):
        t = comp.tagify()
        check(S.snap(comp) == base, f"tagify() #{i+1} changed the component", _diff(base, S.snap(comp)))
        s = str(comp)
        check(S.snap(comp) == base, f"str() #{i+1} changed the component", _diff(base, S.snap(comp)))
        d = h.HTMLDocument(comp).render()
        check(S.snap(comp) == base, f"HTMLDocument(component).render() #{i+1} changed the component", _diff(base, S.snap(comp)))
        results.append((S.snap(t), s, d["html"], tuple(S.snap(x) for x in d["dependencies"])))
    check(all(x == results[0] for x in results), "converting the component repeatedly gives different results")
    t = comp.tagify()
    check(isinstance(t, h.Tag) and t.name == "script", "tagify() does not return one <script> element")
    metas = [c for c in t.children if isinstance(c, h.MetadataNode)]
    vis = [c for c in t.children if not isinstance(c, h.MetadataNode)]
    check(len(vis) == 1 and isinstance(vis[0], h.HTML), "script element does not hold exactly one piece of code")
    names = [m.name for m in metas if isinstance(m, h.HTMLDependency)]
    check(names[:2] == ["react", "react-dom"], "react / react-dom dependencies missing", names)
    for m in metas[:2]:
        src = m.source_path_map()["source"]
        for sc in m.script:
            check(os.path.isfile(os.path.join(src, sc["src"])), f"script file of {m.name} does not exist in the package", os.path.join(src, sc["src"]))
    exp_meta = sorted(repr(S.snap(build(x))) for x in model_metadata(r, []))
    got_meta = sorted(repr(S.snap(m)) for m in metas[2:])
    check(got_meta == exp_meta, "metadata carried by the script element is not (as a multiset) every metadata node of the component tree", exp_meta, got_meta)
    # expression
    s = str(comp)
    try:
        got = J.parse(extract_expression(s))
    except J.JSError as e:
        check(False, f"generated JavaScript cannot be read back: {e}", s)
    want = model_node(r)
    check(got == want, "React.createElement expression does not mirror the component", _diff(want, got), s)
    # something *below* the component changes (a nested tag gets another child and a dependency): the next conversion shows it
    edited = False
    for i, (rc, obj) in enumerate(zip(r["kids"], comp.children)):
        if rc["k"] == "tag" and isinstance(obj, h.Tag):
            late = {"k": "dep", "name": "late", "version": "3.3"}
            obj.append("late-child", build(late))
            kids2 = list(r["kids"])
            kids2[i] = dict(rc, kids=list(rc["kids"]) + [{"k": "str", "s": "late-child"}, late])
            r2 = dict(r, kids=kids2)
            s2 = str(comp)
            try:
                got2 = J.parse(extract_expression(s2))
            except J.JSError as e:
                check(False, f"generated JavaScript cannot be read back: {e}", s2)
            check(got2 == model_node(r2), "a conversion after a nested tag was changed does not mirror the component", _diff(model_node(r2), got2), s2)
            metas2 = [c for c in comp.tagify().children if isinstance(c, h.MetadataNode)][2:]
            check(sorted(repr(S.snap(m)) for m in metas2) == sorted(repr(S.snap(build(x))) for x in model_metadata(r2, [])), "metadata after a nested tag was changed is not every metadata node of the component tree")
            edited = True
            break
    md = model_metadata(r, [])
    deep_meta = any(True for c in r["kids"] if c["k"] in ("tag", "jsx", "tfy") and model_metadata(c, []))
    has_tfy = _has(r, "tfy")
    note(
        bool(r["props"]) and any(c["k"] in ("tag", "jsx") for c in r["kids"]) and (has_tfy or deep_meta),
        "tfy" if has_tfy else "",
        "earlier-conversion-raised" if failed else "",
        "raw-text-element-with-text" if _has_raw_tag(r) else "",
        "metadata-below-top" if deep_meta else "",
        "node-valued-prop" if any(v["t"] == "node" for _, v in effective_props(r)) else "",
        "style-prop" if any(norm(p) == "style" for p, _ in r["props"]) else "",
        "added-later" if any(hw in ("append", "extend", "extend-gen", "extend-tuple") for hw in r["hows"][: len(r["kids"])]) else "",
        "added-from-one-shot-iterable" if any(hw == "extend-gen" for hw in r["hows"][: len(r["kids"])]) else "",
        "edited-then-converted-again" if edited else "",
    )


def _has(r, kind):
    if r["k"] == kind:
        return True
    if r["k"] == "tfy":
        return _has(r["res"], kind)
    if r["k"] in ("tag", "jsx"):
        if any(_has(c, kind) for c in r["kids"]):
            return True
        if r["k"] == "jsx":
            return any(v["t"] == "node" and _has(v["v"], kind) for _, v in effective_props(r))
    return False


def _diff(a, b, path=""):
    if a == b:
        return "equal"
    if isinstance(a, (tuple, list)) and isinstance(b, (tuple, list)) and len(a) == len(b):
        for i, (x, y) in enumerate(zip(a, b)):
            if x != y:
                return _diff(x, y, path + "/%d" % i)
    return f"at {path}: {str(a)[:300]} != {str(b)[:300]}"


# ---------------------------------------------------------------- allow-list


# names that React, the DOM or this library give a meaning of their own: the allow-list applies to them like to any other
ALLOW_EXTRA = ["key", "ref", "children", "style", "className", "class_", "dangerouslySetInnerHTML", "id_", "data_x", "aria_label", "on_click", "htmlFor"]


def allow_case():
    return st.fixed_dictionaries(
        {
            "props": st.lists(st.sampled_from(PROP_NAMES + ALLOW_EXTRA), min_size=1, max_size=4, unique=True),
            "allowed": st.lists(st.sampled_from(PROP_NAMES + ALLOW_EXTRA), min_size=1, max_size=6, unique=True),
            "via_create": st.booleans(),
        }
    )


def body_allow(case, note):
    m = jsx_mod()
    props = {p: 1 for p in case["props"]}
    outside = [p for p in case["props"] if p not in case["allowed"]]
    try:
        if case["via_create"]:
            c = m.jsx_tag_create("Foo", allowedProps=case["allowed"])(**props)
        else:
            c = m.JSXTag("Foo", allowedProps=case["allowed"], **props)
        raised = False
    except Exception:  # noqa - "rejected at construction"
        raised = True
    check(raised == bool(outside), "allow-list: construction accepted a prop outside the list / rejected props inside it", case["allowed"], case["props"])
    special = any(p in ALLOW_EXTRA for p in outside)
    if not raised:
        check(list(c.attrs.keys()) == list(dict.fromkeys(norm(p) for p in case["props"])), "accepted props are not stored once each under their normalised names")
    note(bool(outside) and len(outside) < len(case["props"]), "rejected" if outside else "accepted", "special-name-outside-the-list" if special else "")


def selftest():
    J.selftest()
    S.selftest()


RULE = (
    "component trees of depth <=4 mixing JSX components (dotted names), HTML tags (with attributes and style), strings, numbers, jsx() strings, dependencies / "
    "bare metadata nodes and tagifiable objects as children (added by constructor, nested list, append, extend) and scalars, lists/tuples, dicts, jsx() "
    "expressions, tags and components as prop values, converted 1-3 times; non-trivial = >=1 prop, a nested tag or component child, and a tagifiable or a "
    "metadata node below the top level; distinct by sha1 of the recipe"
)

CLAUSES = [
    Clause(
        "component",
        body_component,
        strategy=lambda: st.fixed_dictionaries({"comp": nodes(), "repeat": st.integers(1, 3)}),
        quick=500,
        thorough=8000,
        shards_quick=4,
        required=("tfy", "metadata-below-top", "node-valued-prop", "style-prop", "added-later", "added-from-one-shot-iterable", "edited-then-converted-again", "earlier-conversion-raised", "raw-text-element-with-text"),
        rule="see RULE",
    ),
    Clause("allowlist", body_allow, strategy=allow_case, quick=400, thorough=3000, shards_quick=1, shards_thorough=2, required=("rejected", "accepted", "special-name-outside-the-list"), rule="some but not all props outside the list"),
]
