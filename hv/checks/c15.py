"""C15 - attribute names and values are normalised and merged in argument order (dict model)."""

from __future__ import annotations

from hypothesis import strategies as st

from hv import gen
from hv.build import build
from hv.core import Clause, check
from hv.oracle import escape as E
from hv.oracle import snapshot as S

ASSUMPTIONS = [
    "model: name = one trailing underscore removed, remaining underscores -> hyphens; None/False dropped, True -> '', numbers -> str(); values of one "
    "normalised name within one call joined by single spaces in argument order; later update / item assignment replaces; first appearance fixes the position",
    "for a value merged from plain and HTML() parts only the class (HTML) and the part-wise text (plain parts raw or escaped) are demanded here; the escaping obligation is C03's",
    "raw names that normalise to the empty string are not generated",
]

POOL = ["x", "x_", "x__", "a_b", "a-b", "class_", "class", "for_", "A_b_", "_a", "data_x", "data-x", "style", "id", "y"]


def raw_names():
    return st.one_of(st.sampled_from(POOL), st.sampled_from(POOL), gen.attr_raw_names()).filter(lambda s: s not in ("_add_ws", "_name", "self") and gen.norm_attr_name(s) != "")


def values():
    return st.one_of(
        st.sampled_from([None, False, True, "", "v", " ", "a b", 0, 1, -3, 2.5, 1e21, {"html": "h&amp;"}, {"html": ""}, {"html": "<b>"}]),
        st.sampled_from([{"float": "nan"}, {"float": "inf"}, {"float": "-inf"}, -0.0, 0.0, 10**30, 1e-7]),  # non-finite floats spelled out (strict JSON recipes)
        gen.hot_text(3),
        gen.safe_text(0, 4),
        gen.numbers(),
    )


FAMILIES = [["x", "x_"], ["a_b", "a-b", "a_b_"], ["class_", "class"], ["data_x", "data-x", "data_x_"], ["for_", "for"]]


def colliding():
    """same normalised name several times with a dropped value in between"""
    return st.builds(
        lambda fam, i, j, k, v1, drop, v2: [[fam[i % len(fam)], v1], [fam[j % len(fam)], drop], [fam[k % len(fam)], v2]],
        st.sampled_from(FAMILIES),
        st.integers(0, 5),
        st.integers(0, 5),
        st.integers(0, 5),
        values(),
        st.sampled_from([None, False]),
        values(),
    )


def pairs(n=3):
    return st.one_of(st.lists(st.tuples(raw_names(), values()).map(list), max_size=n), st.lists(st.tuples(raw_names(), values()).map(list), max_size=n), colliding())


def child():
    leaf = st.sampled_from([{"k": "text", "s": "c"}, {"k": "num", "v": 7}, {"k": "none"}, {"k": "html", "s": "<i>"}, {"k": "tag", "name": "b", "ws": False, "attrs": [], "kids": []}, {"k": "dep", "name": "d", "version": "1"}])
    return st.one_of(leaf, st.builds(lambda t, ks: {"k": "list", "t": t, "kids": ks}, st.sampled_from(["list", "tuple"]), st.lists(leaf, max_size=2)))


def case_strategy():
    # "a": the attribute map of another, existing tag is handed over as the positional dict
    arg = st.one_of(st.tuples(st.just("d"), pairs()).map(list), st.tuples(st.just("d"), pairs()).map(list), st.tuples(st.just("c"), child()).map(list), st.tuples(st.just("a"), pairs()).map(list))
    later = st.one_of(
        st.tuples(st.just("update"), st.lists(pairs(), max_size=2), pairs(2)).map(list),
        st.tuples(st.just("set"), raw_names(), values()).map(list),
        st.tuples(st.just("update-self"), st.booleans(), pairs(2)).map(list),
    )
    return st.fixed_dictionaries({"args": st.lists(arg, max_size=5), "kw": pairs(3), "later": st.lists(later, max_size=4), "via": st.sampled_from(["Tag", "div", "span"]), "poison": st.sampled_from([None, None, "key", "value", "update-key", "nonmapping"]), "ws_kw": st.sampled_from([None, None, True, False])})


def val_obj(v):
    import htmltools as h

    if isinstance(v, dict) and "float" in v:
        return float(v["float"])
    return h.HTML(v["html"]) if isinstance(v, dict) else v


def part_of(v):
    if v is None or v is False:
        return None
    if v is True:
        return ("plain", "")
    if isinstance(v, dict) and "float" in v:
        return ("plain", str(float(v["float"])))
    if isinstance(v, dict):
        return ("html", v["html"])
    if isinstance(v, str):
        return ("plain", v)
    return ("plain", str(v))


def uniq(ps):
    d = {}
    for k, v in ps:
        d[k] = v
    return list(d.items())


def merge_call(model, seq):
    acc = {}
    dropped_between = False
    for raw, v in seq:
        p = part_of(v)
        nm = gen.norm_attr_name(raw)
        if p is None:
            if nm in acc:
                dropped_between = True
            continue
        acc.setdefault(nm, []).append(p)
    for k, parts in acc.items():
        model[k] = parts
    return acc, dropped_between


def check_stored(tag_attrs, model, label):
    import htmltools as h

    got_names = list(tag_attrs.keys())
    check(got_names == list(model.keys()), f"{label}: attribute names / order differ from the model", list(model.keys()), got_names)
    for k, parts in model.items():
        v = tag_attrs[k]
        kinds = {p[0] for p in parts}
        if kinds == {"plain"}:
            want = " ".join(t for _, t in parts)
            check(type(v) is str and v == want, f"{label}: value of {k!r} differs from the model", want, v)
        elif kinds == {"html"}:
            want = " ".join(t for _, t in parts)
            check(isinstance(v, h.HTML) and v.data == want, f"{label}: HTML() value of {k!r} differs from the model", want, repr(v))
        else:
            check(isinstance(v, h.HTML), f"{label}: value of {k!r} merged from plain and HTML() parts is not HTML()", type(v).__name__)
            out = v.data
            cur = {0}
            for i, (kind, t) in enumerate(parts):
                if i:
                    cur = {p + 1 for p in cur if out.startswith(" ", p)}
                if kind == "html":
                    cur = {p + len(t) for p in cur if out.startswith(t, p)}
                else:
                    nxt = set()
                    for p in cur:
                        nxt |= E.match(out, p, t, frozenset(), E.ATTR_META)
                    cur = nxt
                check(bool(cur), f"{label}: merged value of {k!r} does not consist of the supplied parts joined by single spaces in order", parts, out)
            check(len(out) in cur, f"{label}: merged value of {k!r} has trailing text", parts, out)


def body(case, note):
    import htmltools as h

    model: dict = {}
    args_real = []
    seq = []
    children_real = []
    donors = []
    for kind, payload in case["args"]:
        if kind == "d":
            ps = uniq(payload)
            args_real.append({r: val_obj(v) for r, v in ps})
            seq += ps
        elif kind == "a":
            donor = h.Tag("i", {r: val_obj(v) for r, v in uniq(payload)})
            donors.append((donor, S.snap(donor)))
            args_real.append(donor.attrs)
            # what the donor stores (normalised names, merged values) is what is being passed
            seq += [(k, {"html": v.data} if isinstance(v, h.HTML) else v) for k, v in donor.attrs.items()]
        else:
            c = build(payload)
            args_real.append(c)
            children_real.append(c)
    poison = case.get("poison")
    if poison:
        # an invalid call earlier in the process (it fails, whatever the exception): the next call must be unaffected
        try:
            if poison == "key":
                h.Tag("div", {"class": "stale", "data_x": 1, "x": "left-over"}, {7: "non-string name"})
            elif poison == "value":
                h.Tag("div", {"class": "stale", "x": "left-over"}, {"y": object()})
            elif poison == "update-key":
                h.Tag("p").attrs.update({"class": "stale", "x": "left-over"}, {None: "v"})
            else:
                h.Tag("p").attrs.update({"class": "stale", "x": "left-over"}, [("a", "b")])
        except Exception:  # noqa
            pass
    kw = uniq(case["kw"])
    seq += kw
    kwr = {r: val_obj(v) for r, v in kw}
    acc, dropped = merge_call(model, seq)
    # the whitespace flag travels with the keywords of a call that is forwarded as a whole; it is not an attribute
    fwd = dict(kwr)
    if case.get("ws_kw") is not None:
        fwd["_add_ws"] = case["ws_kw"]
    if case["via"] == "Tag":
        tag = h.Tag("div", *args_real, **fwd)
    else:
        tag = getattr(h, case["via"])(*args_real, **fwd)
    if case.get("ws_kw") is not None:
        check(tag.add_ws is case["ws_kw"], "_add_ws keyword not honoured")
    check_stored(tag.attrs, model, "constructor")
    # consolidate_attrs
    attrs, children = h.consolidate_attrs(*args_real, **fwd)
    check(type(attrs) is dict, "consolidate_attrs does not return a plain dict", type(attrs).__name__)
    check_stored(attrs, model, "consolidate_attrs")
    check(len(children) == len(children_real) and all(a is b for a, b in zip(children, children_real)), "consolidate_attrs does not return the non-dict arguments unchanged and in order")
    name = tag.name
    rebuilt = h.Tag(name, attrs, *children, _add_ws=tag.add_ws)
    check(S.snap(rebuilt) == S.snap(tag), "rebuilding a tag from consolidate_attrs() differs from building it directly", S.snap(tag), S.snap(rebuilt))
    check(rebuilt.get_html_string() == tag.get_html_string(), "rebuilt tag renders differently")
    collide = any(len(v) >= 2 for v in acc.values())
    # later steps
    replaced = False
    for st_ in case["later"]:
        if st_[0] == "update":
            ds = [uniq(d) for d in st_[1]]
            k2 = uniq(st_[2])
            before = set(model)
            tag.attrs.update(*[{r: val_obj(v) for r, v in d} for d in ds], **{r: val_obj(v) for r, v in k2})
            a2, _ = merge_call(model, [p for d in ds for p in d] + k2)
            replaced = replaced or bool(before & set(a2))
        elif st_[0] == "update-self":
            # the tag's own attribute map handed to its own update(), before or after another dict
            own = [(k, {"html": v.data} if isinstance(v, h.HTML) else v) for k, v in tag.attrs.items()]
            k2 = uniq(st_[2])
            more = {r: val_obj(v) for r, v in k2}
            before = set(model)
            if st_[1]:
                tag.attrs.update(tag.attrs, more)
                a2, _ = merge_call(model, own + k2)
            else:
                tag.attrs.update(more, tag.attrs)
                # dict semantics of the accumulator: names of `more` first, then the own ones; existing names keep their place
                a2, _ = merge_call(model, k2 + own)
            replaced = replaced or bool(before & set(a2))
        else:
            tag.attrs[st_[1]] = val_obj(st_[2])
            p = part_of(st_[2])
            if p is not None:
                nm = gen.norm_attr_name(st_[1])
                replaced = replaced or nm in model
                model[nm] = [p]
        check_stored(tag.attrs, model, st_[0])
    for donor, snap0 in donors:
        check(tag.attrs is not donor.attrs, "the new tag's attribute map is the very object that was passed in")
        check(S.snap(donor) == snap0, "building / updating a tag changed the tag whose attribute map was passed to the constructor", snap0, S.snap(donor))
    # rendering shows exactly these attributes in this order
    out = tag.get_html_string()
    pos = len("<" + name)
    for k in model:
        lit = f' {k}="'
        check(out.startswith(lit, pos), "rendered attribute order differs from the stored order", out)
        pos = out.index('"', pos + len(lit)) + 1 if all(p[0] == "plain" for p in model[k]) else out.index('"', pos + len(lit)) + 1
        if not all(p[0] == "plain" for p in model[k]):
            break
    note(collide and dropped, "later-replaces" if replaced else "", "collision" if collide else "", "children-interleaved" if children_real and any(a[0] == "d" for a in case["args"]) else "", "via:" + case["via"], "after-failed-call" if poison else "", "ws-keyword-forwarded" if case.get("ws_kw") is not None else "", "attrs-of-another-tag-passed" if donors and case["later"] else "",
         "lone-attrs-of-another-tag-then-changed" if donors and len([a for a in case["args"] if a[0] != "c"]) == 1 and not kw and case["later"] else "",
         "non-finite-number" if any(isinstance(v, dict) and "float" in v for _, v in seq) else "")


def selftest():
    E.selftest()
    assert gen.norm_attr_name("x__") == "x-" and gen.norm_attr_name("A_b_") == "A-b" and gen.norm_attr_name("_a") == "-a" and gen.norm_attr_name("class_") == "class"


RULE = (
    "0-5 positional arguments (attribute dicts interleaved with children incl. nested lists) + 0-3 keywords with raw names from a colliding pool "
    "(x, x_, x__, a_b, a-b, class_, ...) and values None/False/True/str/''/int/float/HTML(), then 0-4 update / item-assignment steps; "
    "non-trivial = two raw names colliding after normalisation in one call with a dropped (None/False) value for that name in between; class "
    "'later-replaces' required; distinct by sha1 of the recipe"
)

CLAUSES = [
    Clause("model", body, strategy=case_strategy, quick=1200, thorough=20000, shards_quick=4, required=("later-replaces", "collision", "children-interleaved", "after-failed-call", "ws-keyword-forwarded", "non-finite-number", "attrs-of-another-tag-passed", "lone-attrs-of-another-tag-then-changed"), rule="see RULE"),
]
