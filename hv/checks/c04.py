"""C04 - trusted markup is emitted verbatim and escaping happens exactly once.

algebra  : concatenation expression trees over str / HTML / numbers (+, reflected +, +=)
           against an algebraic model                                        (Hypothesis)
verbatim : trees with trusted slots (HTML() children and attribute values, _repr_html_
           objects, text inside script/style) - placeholder-template relation with
           *exact* substitution on every rendering path                       (Hypothesis)
"""

from __future__ import annotations

import operator
import re

from hypothesis import strategies as st

from hv import gen
from hv.build import Repr
from hv.core import Clause, check
from hv.oracle import escape as E

ASSUMPTIONS = [
    "expressions are type-correct Python: a number is only ever added to an HTML-kind operand",
    "layout depends on node kinds only, so the rendering with placeholders is the template for the rendering with the real markup",
    "UserString methods other than + (%, join, slicing) are outside the statement",
    "_repr_html_() returns str as the ReprHtml protocol declares (an object returning HTML() instead is outside the contract: observed to re-escape the output prefix, not demanded)",
]

META = E.TEXT_META

# ---------------------------------------------------------------- algebra


def leaves():
    s = st.builds(lambda v: {"t": "s", "v": v}, gen.any_text())
    h = st.builds(lambda v: {"t": "h", "v": v}, gen.any_text())
    n = st.builds(lambda v: {"t": "n", "v": v}, gen.numbers())
    return gen.opaque(st.one_of(s, s, h, h, n))


def kind(e) -> str:
    if "t" in e:
        return e["t"]
    a, b = kind(e["l"]), kind(e["r"])
    return "h" if "h" in (a, b) else "s"


def repair(e):
    """make the expression type-correct: a number leaf whose sibling is not HTML-kind becomes its str()"""
    if "t" in e:
        return e
    l, r = repair(e["l"]), repair(e["r"])
    if kind(l) == "n" and kind(r) != "h":
        l = {"t": "s", "v": str(l["v"])}
    if kind(r) == "n" and kind(l) != "h":
        r = {"t": "s", "v": str(r["v"])}
    if kind(l) == "n" and kind(r) == "n":
        l = {"t": "s", "v": str(l["v"])}
    return {"op": e["op"], "l": l, "r": r}


def exprs():
    leaf = leaves()
    node = leaf
    for _ in range(3):
        node = st.one_of(leaf, st.builds(lambda o, l, r: {"op": o, "l": l, "r": r}, st.sampled_from(["+", "+", "iadd"]), node, node))
    return st.builds(lambda o, l, r: {"op": o, "l": l, "r": r}, st.sampled_from(["+", "iadd"]), node, node).map(repair)


def operands(e, out):
    if "t" in e:
        out.append(e)
    else:
        operands(e["l"], out)
        operands(e["r"], out)
    return out


def evaluate(e):
    import htmltools as h

    if "t" in e:
        return h.HTML(e["v"]) if e["t"] == "h" else e["v"]
    l, r = evaluate(e["l"]), evaluate(e["r"])
    if e["op"] == "iadd":
        return operator.iadd(l, r)
    return l + r


def walk_parts(out: str, pos: int, ops, label: str):
    """operands must appear in order: plain escaped exactly once (E), HTML verbatim"""
    cur = {pos}
    for o in ops:
        if o["t"] == "h":
            cur = {p + len(o["v"]) for p in cur if out.startswith(o["v"], p)}
            check(bool(cur), f"{label}: HTML operand {o['v']!r} not emitted verbatim", out)
        else:
            text = o["v"] if o["t"] == "s" else str(o["v"])
            nxt = set()
            for p in cur:
                nxt |= E.match(out, p, text, META, META)
            check(bool(nxt), f"{label}: plain operand {text!r} not escaped exactly once", out)
            cur = nxt
    return cur


def body_algebra(case, note):
    import htmltools as h

    if case.get("prior_failed"):
        from hv.history import failed_operations

        failed_operations(key=case["expr"])
    e = case["expr"]
    ops = operands(e, [])
    res = evaluate(e)
    any_html = any(o["t"] == "h" for o in ops)
    if any_html:
        check(isinstance(res, h.HTML), "concatenation involving HTML() did not yield HTML()", type(res).__name__)
        check(type(str(res)) is str, "str(HTML) is not a plain str")
    else:
        check(type(res) is str, "str + str is not a plain str")
    objs = [h.HTML(o["v"]) if o["t"] == "h" else o["v"] for o in ops]
    sep = h.TagList(*objs).get_html_string()
    got = h.TagList(res).get_html_string()
    check(got == sep, "rendering the concatenation differs from rendering the operands as adjacent children", sep, got)
    ends = walk_parts(got, 0, ops, "TagList(result)")
    check(len(got) in ends, "TagList(result): trailing output", got)
    for label, t, pre, post in (
        ("block parent", h.Tag("div", "x", res), "<div>\n  x", "\n</div>"),
        ("inline parent", h.Tag("span", h.Tag("b", _add_ws=False), res, _add_ws=False), "<span><b></b>", "</span>"),
        ("only child", h.Tag("p", res), "<p>", "</p>"),
    ):
        o = t.get_html_string()
        check(o.startswith(pre) and o.endswith(post), f"{label}: unexpected frame", o)
        check(o[len(pre) : len(o) - len(post)] == sep, f"{label}: result as a child differs from the operands as adjacent children", sep, o)
    # "+ / += between str, HTML and other objects": the result joined to a child list by the list's own operators
    def _iadd(x, y):
        x += y
        return x

    def _ext(x, y):
        x.extend(y)
        return x

    def _kids_iadd(t, y):
        t.children += y
        return t

    joins = [
        ("TagList('x') + result", h.TagList("x") + res, "x", ""),
        ("TagList('x') += result", _iadd(h.TagList("x"), res), "x", ""),
        ("TagList('x').extend(result)", _ext(h.TagList("x"), res), "x", ""),
        ("Tag.extend(result)", _ext(h.Tag("b", "x", _add_ws=False), res), "<b>x", "</b>"),
        ("tag.children += result", _kids_iadd(h.Tag("b", "x", _add_ws=False), res), "<b>x", "</b>"),
    ]
    if type(res) is str:
        joins.append(("result + TagList('x')", res + h.TagList("x"), "", "x"))
    for label, obj, pre, post in joins:
        o = obj.get_html_string()
        check(o == pre + sep + post, f"{label}: differs from the operands as adjacent children", pre + sep + post, o)
    plain_meta = any(o["t"] == "s" and META & set(o["v"]) for o in ops)
    kinds = {o["t"] for o in ops}
    note(
        len(ops) >= 3 and "h" in kinds and "s" in kinds and plain_meta,
        "number" if "n" in kinds else "",
        "iadd" if _has_op(e, "iadd") else "",
        "reflected" if _has_reflected(e) else "",
        "all-plain" if not any_html else "",
        "earlier-operations-raised" if case.get("prior_failed") else "",
    )


def _has_op(e, op):
    return "op" in e and (e["op"] == op or _has_op(e["l"], op) or _has_op(e["r"], op))


def _has_reflected(e):
    """a + whose left operand is not HTML-kind and right operand is: goes through __radd__"""
    if "t" in e:
        return False
    return (kind(e["l"]) != "h" and kind(e["r"]) == "h") or _has_reflected(e["l"]) or _has_reflected(e["r"])


# ---------------------------------------------------------------- verbatim slots

PH = "ZQ~%d~QZ"
PH_RE = re.compile(r"ZQ~(\d+)~QZ")


def markup():
    long_ = st.builds(lambda s, k: ((s or "<b>&amp;</b>") * k)[:300], gen.any_text(), st.integers(10, 40)).filter(lambda s: len(s) >= 64)
    return st.one_of(gen.any_text(), gen.hot_text(10), st.sampled_from(["<b>x</b>", "a\nb", "&amp;", "&", "</script>", '"', "<!-- c -->", "\r\n", "a\\1b", "x\\ny", "\\g<0>", "C:\\dir\\file", "\\", "$1 %s {0}"]), long_)


def slot(kinds):
    return st.builds(lambda k, m: {"k": "slot", "kind": k, "m": m}, st.sampled_from(kinds), markup())


def vtree():
    plain = st.sampled_from([{"k": "text", "s": "p"}, {"k": "text", "s": ""}, {"k": "meta"}, {"k": "dep", "name": "d", "version": "1"}])
    leaf = gen.opaque(st.one_of(slot(["html", "repr", "repr-iter", "repr-inst"]), slot(["html", "repr", "dephead"]), plain))
    rawleaf = gen.opaque(st.one_of(slot(["rawtext", "rawhtml"]), slot(["rawtext", "rawhtml"]), st.sampled_from([{"k": "meta"}, {"k": "dep", "name": "d", "version": "1"}])))
    attr = st.lists(st.tuples(st.sampled_from(["class", "title", "data-x", "style"]), st.lists(markup(), min_size=1, max_size=3)).map(list), max_size=2)

    def tag(children):
        return st.builds(
            lambda nm, ws, attrs, kids, vc, post: {"k": "tag", "name": nm, "ws": ws, "attrs": attrs, "kids": kids, "via_consolidate": vc, "post": post},
            st.sampled_from(["div", "p", "span", "b", "ul", "x-y"] + gen.SPECIAL_NAMES + gen.RAWISH_NAMES + ["br", "input"]),
            st.booleans(),
            attr,
            st.lists(children, max_size=4),
            st.sampled_from([False, False, True]),
            # plain values added to the (trusted) class / style afterwards through the helper methods
            st.lists(st.sampled_from(["add_class", "add_class_prepend", "add_style", "add_style_prepend", "update_other"]), max_size=2),
        )

    raw = st.builds(
        lambda nm, ws, attrs, kids, late: {"k": "tag", "name": nm, "ws": ws, "attrs": attrs, "kids": kids, "late": late},
        st.sampled_from(["script", "style"]),
        st.booleans(),
        attr,
        st.lists(rawleaf, max_size=3),
        st.sampled_from([None, None, "append", "extend", "insert"]),
    )
    node = st.one_of(leaf, raw)
    for _ in range(2):
        node = st.one_of(leaf, raw, tag(node), tag(node))
    return st.lists(st.one_of(tag(node), raw, leaf), min_size=1, max_size=3)


def vcase():
    return st.fixed_dictionaries({"roots": vtree(), "indent": st.integers(0, 3), "eol": st.sampled_from(["\n", "", "\r\n"]), "prior": st.sampled_from([False, False, True, "failed"])})


class _B:
    def __init__(self, real: bool) -> None:
        self.real = real
        self.slots: list = []
        self.slot_kinds: list = []
        self.kinds: set = set()

    def val(self, m: str, kind: str) -> str:
        i = len(self.slots)
        self.slots.append(m)
        self.slot_kinds.append(kind)
        self.kinds.add(kind)
        return m if self.real else PH % i

    def node(self, r, in_raw=False):
        import htmltools as h
        from hv.build import build

        k = r["k"]
        if k == "slot":
            v = self.val(r["m"], r["kind"])
            if r["kind"] in ("html", "rawhtml"):
                return h.HTML(v)
            if r["kind"] == "repr":
                return Repr(v, False)
            if r["kind"] == "dephead":
                # trusted markup that travels as the head payload of a dependency (shown by the document paths)
                return h.HTMLDependency("slotdep%d" % (len(self.slots) - 1), "1.0", head=h.HTML(v))
            if r["kind"] == "repr-inst":
                from hv.build import build as _b

                return _b({"k": "repr", "s": v, "inst": True})
            if r["kind"] == "repr-iter":
                from hv.build import ReprIter

                return ReprIter(v, False)  # self-rendering and iterable: still one node
            return v  # rawtext: plain str inside script/style
        if k != "tag":
            return build(r)
        attrs = []
        for name, vals in r["attrs"]:
            for m in vals:
                attrs.append({name: h.HTML(self.val(m, "attr" if len(vals) == 1 else "attr-merge"))})
        kids = [self.node(c) for c in r["kids"]]
        late = r.get("late")
        if r.get("via_consolidate") and not late:
            # the public helper: attributes (incl. HTML() values) consolidated, then the tag rebuilt from the result
            self.kinds.add("via-consolidate")
            cattrs, ckids = h.consolidate_attrs(*attrs, *kids)
            return self.post(h.Tag(r["name"], cattrs, *ckids, _add_ws=r["ws"]), r)
        if late:
            # children added after construction (append / extend / insert), not through the constructor
            self.kinds.add("late-" + late)
            t = h.Tag(r["name"], *attrs, _add_ws=r["ws"])
            if late == "append":
                for kd in kids:
                    t.append(kd)
            elif late == "extend":
                t.extend(kids)
            else:
                for i, kd in enumerate(kids):
                    t.insert(i, kd)
            return t
        return self.post(h.Tag(r["name"], *attrs, *kids, _add_ws=r["ws"]), r)

    def post(self, t, r):
        for op in r.get("post") or []:
            self.kinds.add("post-" + op.split("_prepend")[0])
            if op.startswith("add_class"):
                t.add_class("zz", prepend=op.endswith("prepend"))
            elif op.startswith("add_style"):
                t.add_style("k:v;", prepend=op.endswith("prepend"))
            else:
                t.attrs.update({"data-other": "o"})
        return t


def _renders(objs, case):
    import htmltools as h

    tl = h.TagList(*objs)
    outs = [
        ("TagList.get_html_string", tl.get_html_string(case["indent"], case["eol"])),
        ("TagList.render", tl.render()["html"]),
        ("HTMLDocument.render", h.HTMLDocument(*objs).render()["html"]),
    ]
    # save_html() is a rendering path too: what lands in the file must be the document's markup
    import os
    import shutil
    import tempfile

    import locale

    if locale.getpreferredencoding(False).lower().replace("-", "") == "utf8":  # save_html() writes in the locale's encoding
        d = tempfile.mkdtemp(prefix="hv-c04-")
        try:
            f = os.path.join(d, "page.html")
            h.HTMLDocument(*objs).save_html(f)
            with open(f, encoding="utf-8", newline="") as fh:
                outs.append(("save_html file", fh.read()))
        finally:
            shutil.rmtree(d, ignore_errors=True)
    # ... and so is a text document into which the collected dependencies are inserted at a placeholder
    deps = tl.tagify().get_dependencies()
    outs.append(("HTMLTextDocument.render", h.HTMLTextDocument("<html><head>@@DEPS@@</head><body>b \\1 \\n</body></html>", deps=deps, deps_replace_pattern="@@DEPS@@").render()["html"]))
    if isinstance(objs[0], h.Tag):
        outs.append(("Tag.get_html_string", objs[0].get_html_string(case["indent"], case["eol"])))
        outs.append(("str(tag)", str(objs[0])))
        outs.append(("Tag.tagify().get_html_string", objs[0].tagify().get_html_string()))
    return outs


def body_verbatim(case, note):
    b0, b1 = _B(False), _B(True)
    o0 = [b0.node(r) for r in case["roots"]]
    o1 = [b1.node(r) for r in case["roots"]]
    slots = b1.slots
    if case.get("prior") == "failed":
        from hv.history import failed_operations

        failed_operations(case["indent"], case["eol"], key=case["roots"])
    if case.get("prior") is True:
        # history: the same characters were rendered earlier in this process as *plain* text / attribute values
        import htmltools as h

        for m in slots:
            h.Tag("p", m).get_html_string()
            h.Tag("p", m, "x", title=m).get_html_string()
    for (label, r0), (_, r1) in zip(_renders(o0, case), _renders(o1, case)):
        found = [int(m.group(1)) for m in PH_RE.finditer(r0)]
        if label.startswith("TagList") or label.startswith("HTMLDocument") or label.startswith("save_html"):
            want_idx = [i for i in range(len(slots)) if (b0.slot_kinds[i] == "dephead") == label.startswith(("HTMLDocument", "save_html"))] if not label.startswith(("HTMLDocument", "save_html")) else list(range(len(slots)))
            check(sorted(found) == want_idx, f"{label}: a trusted slot was dropped or duplicated", found, r0)
        if label.startswith("HTMLTextDocument"):
            check(sorted(found) == [i for i in range(len(slots)) if b0.slot_kinds[i] == "dephead"], f"{label}: dependency head markup dropped or duplicated", found, r0)
        exp = PH_RE.sub(lambda m: slots[int(m.group(1))], r0)
        check(r1 == exp, f"{label}: trusted markup is not emitted byte-for-byte", exp, r1)
    nontriv = any((META | set("\n\r\"'")) & set(m) for m in slots) and len(slots) >= 2
    note(nontriv, *["slot:" + k for k in sorted(b1.kinds)], "prior-plain-render" if case.get("prior") is True else "", "earlier-operations-raised" if case.get("prior") == "failed" else "", "long-markup" if any(len(m) >= 64 for m in slots) else "")


def selftest():
    E.selftest()
    e = repair({"op": "+", "l": {"t": "n", "v": 1}, "r": {"t": "s", "v": "a"}})
    assert kind(e) == "s" and e["l"] == {"t": "s", "v": "1"}


RULE = (
    "algebra: expression trees with 2-16 operands over str/HTML/number joined by +, reflected + and +=; non-trivial = >=3 operands, "
    "both kinds present, a plain operand with & < or >. verbatim: trees with HTML()/_repr_html_/attribute/script-style slots filled "
    "with metacharacter-dense markup; non-trivial = >=2 slots, one containing a metacharacter, quote or line break; distinct by sha1"
)

CLAUSES = [
    Clause(
        "algebra",
        body_algebra,
        strategy=lambda: st.fixed_dictionaries({"expr": exprs(), "prior_failed": st.sampled_from([False, False, True])}),
        quick=1000,
        thorough=20000,
        shards_quick=3,
        required=("number", "iadd", "reflected", "all-plain", "earlier-operations-raised"),
        rule="see RULE",
    ),
    Clause(
        "verbatim",
        body_verbatim,
        strategy=vcase,
        quick=600,
        thorough=15000,
        shards_quick=4,
        required=("slot:html", "slot:repr", "slot:rawtext", "slot:rawhtml", "slot:attr", "slot:attr-merge", "prior-plain-render", "long-markup", "slot:late-append", "slot:late-insert", "slot:via-consolidate", "slot:repr-iter", "slot:post-add_class", "slot:post-add_style", "slot:dephead", "slot:repr-inst", "earlier-operations-raised"),
        rule="see RULE",
    ),
]
