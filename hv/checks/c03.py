"""C03 - attribute values are inert, single-line, and decode to the original.

codepoints : every Unicode scalar value as an attribute value                      (exhaustive)
short      : every string of length <= L over the 13-symbol metacharacter alphabet  (exhaustive)
history    : attribute histories (keyword, positional dict, several values for one
             name, update, item assignment, add_class, add_style; plain x HTML mixes)
             against a parts model and the lock-step matcher E                      (Hypothesis)
"""

from __future__ import annotations

import html as _html

from hypothesis import strategies as st

from hv import gen
from hv.core import Clause, Violation, check
from hv.oracle import escape as E
from hv.oracle import tokenizer as T

ASSUMPTIONS = [
    "E decides 'replaced by a character reference that decodes to it' with html.unescape; reference spelling is free",
    "the model of which parts make up a value is the documented one: join within a call, replace on a later call, add_class/add_style = existing + new",
    "HTML() parts are trusted: hostile HTML() markup may legitimately break the tag, so the tokenizer read-back is only applied when all HTML() parts are benign",
]

META = E.ATTR_META
ALPHABET = ["&", "<", ">", '"', "'", ";", "#", "a", "x", "3", " ", "\n", "\r"]
TARGET = "vpT"


def attr_ok(out: str, s: str) -> bool:
    if not (META & set(s)):
        return out == s
    return len(out) in E.match(out, 0, s, META, META)


# ------------------------------------------------------------------ exhaustive parts

CHUNK = 1024


def enum_codepoints(tier):
    for lo in range(0, 0x110000, CHUNK):
        yield {"lo": lo, "hi": min(lo + CHUNK, 0x110000)}


def _paths(s: str):
    import htmltools as h

    yield "Tag('div', x=s)", h.Tag("div", x=s).get_html_string(), '<div x="', '"></div>'
    yield "Tag('div', {'x': s}, 'c')", h.Tag("div", {"x": s}, "c").get_html_string(), '<div x="', '">c</div>'
    t = h.Tag("input", a="1")
    t.attrs["x"] = s
    yield "attrs['x'] = s", str(t), '<input a="1" x="', '"/>'
    t = h.Tag("p")
    t.attrs.update({"x": s})
    yield "attrs.update({'x': s})", t.get_html_string(), '<p x="', '"></p>'


def _check_string(s: str):
    import htmltools as h

    for label, out, pre, post in _paths(s):
        if not (out.startswith(pre) and out.endswith(post) and len(out) >= len(pre) + len(post)):
            return label + " -> " + repr(out[:80])
        if not attr_ok(out[len(pre) : len(out) - len(post)], s):
            return label + " -> " + repr(out[:80])
    if not attr_ok(h.html_escape(s, attr=True), s):
        return "html_escape(s, attr=True)"
    return None


def body_codepoints(case, note):
    import htmltools as h

    if "s" in case:
        bad = _check_string(case["s"])
        check(bad is None, f"attribute value {case['s']!r} is not emitted inertly: {bad}")
        note(True)
        return
    cps = [cp for cp in range(case["lo"], case["hi"]) if not (0xD800 <= cp <= 0xDFFF)]
    if not cps:
        note.bulk(1, 0)
        return
    esc = h.html_escape
    nmeta = 0
    for cp in cps:
        c = chr(cp)
        o1 = esc(c, attr=True)
        s2 = "a" + c + c + "b"
        o2 = esc(s2, True)
        if c in META:
            nmeta += 1
            ok = attr_ok(o1, c) and attr_ok(o2, s2)
        else:
            ok = o1 == c and o2 == s2
        if not ok:
            raise Violation(f"html_escape(attr=True) mishandles U+{cp:04X}: {o1!r} / {o2!r}", case={"s": c})
    chunk = "".join(map(chr, cps))
    bad = _check_string(chunk)
    if bad is not None:
        for cp in cps:
            b = _check_string(chr(cp))
            if b is not None:
                raise Violation(f"U+{cp:04X} as attribute value is not inert: {b}", case={"s": chr(cp)})
        raise Violation(f"chunk U+{case['lo']:04X}.. as attribute value is not inert: {bad}", case={"s": chunk})
    note.bulk(len(cps), len(cps), sample=dict(case) if case["lo"] in (0, 0x2000) else None, metachar_codepoints=nmeta)


def enum_short(tier):
    maxlen = 4 if tier == "quick" else 6
    for L in range(0, maxlen + 1):
        total = len(ALPHABET) ** L
        for lo in range(0, total, 20000):
            yield {"len": L, "lo": lo, "hi": min(total, lo + 20000)}


def _nth(L, i):
    out = []
    for _ in range(L):
        i, r = divmod(i, len(ALPHABET))
        out.append(ALPHABET[r])
    return "".join(out)


def body_short(case, note):
    import htmltools as h

    if "s" in case:
        bad = _check_string(case["s"])
        check(bad is None, f"attribute value {case['s']!r} is not emitted inertly: {bad}")
        note(True)
        return
    esc, Tag = h.html_escape, h.Tag
    n = nt = 0
    for i in range(case["lo"], case["hi"]):
        s = _nth(case["len"], i)
        n += 1
        o = esc(s, attr=True)
        if META & set(s):
            nt += 1
        if not attr_ok(o, s):
            raise Violation(f"html_escape({s!r}, attr=True) = {o!r} is not the inert encoding", case={"s": s})
        o2 = Tag("div", x=s).get_html_string()
        if o2 != '<div x="' + o + '"></div>':
            if not (o2.startswith('<div x="') and o2.endswith('"></div>') and attr_ok(o2[8:-8], s)):
                raise Violation(f"Tag('div', x={s!r}) renders {o2!r}", case={"s": s})
    note.bulk(n, nt, sample={"len": case["len"], "lo": 0, "first": _nth(case["len"], 0)} if case["lo"] == 0 and case["len"] in (2, 4) else None)


# ------------------------------------------------------------------ histories

NAME_POOL = ["x", "x_", "class_", "class", "style", "id", "data_a", "data-a", "title", "A_b", "for_", "y",
             # names to which HTML / browsers attach a meaning of their own (URLs, handlers, form values)
             "href", "src", "action", "value", "onclick", "srcset", "poster", "xlink:href", "content", "alt", "name", "type",
             "aria_hidden", "aria-pressed", "ARIA_label", "data_flag", "hidden", "contenteditable", "draggable", "spellcheck"]


def raw_names():
    return st.one_of(st.sampled_from(NAME_POOL), st.sampled_from(NAME_POOL), gen.attr_raw_names()).filter(
        lambda s: s not in ("_add_ws", "_name", "self")
    )


BENIGN_HTML = ["c", "&amp;", "a&#10;b", "", "p q", "&lt;i&gt;", "x;"]


def values():
    plain = gen.any_text()
    htmlv = st.one_of(st.sampled_from(BENIGN_HTML), st.sampled_from(BENIGN_HTML), gen.any_text()).map(lambda s: {"html": s})
    strsub = gen.any_text().map(lambda t: {"strsub": t})  # StrEnum members, typed id strings: plain strings
    # values that start like something harmless or well known (data: / javascript: URLs, url(), template markers)
    prefixed = st.builds(
        lambda pre, t: pre + t,
        st.sampled_from(["data:image/png;base64,", "data:text/html;charset=utf-8;base64,AAAA", "data:,", "javascript:", "https://x.example/?q=", "#", "mailto:", "url(", "var(--x)", "{{", "rgb(", "0", "true", "on", "&amp;", "&#10;",
                         '{"a": 1, "b": "x y", "c": ', '["x", "y", ', '{\n  "k": "v",\n  "t": ', "[", "{"]),
        gen.any_text(),
    )
    return st.one_of(plain, plain, plain, htmlv, htmlv, gen.numbers(), st.sampled_from([True, False, None, 0, ""]), strsub, prefixed)


def str_values():
    plain = gen.any_text()
    htmlv = st.one_of(st.sampled_from(BENIGN_HTML), gen.any_text()).map(lambda s: {"html": s})
    return st.one_of(plain, plain, htmlv)


BOOLEAN_ATTRS = ["checked", "disabled", "selected", "hidden", "readonly", "required", "open", "multiple", "async", "defer", "autofocus", "novalidate"]


def pairs(max_size=3):
    plain = st.lists(st.tuples(raw_names(), values()).map(list), max_size=max_size)
    # several values for ONE name in one call, plain ones before the first HTML() one
    triple = st.builds(
        lambda fam, a, b, c, hv: [[fam[0], a], [fam[1 % len(fam)], b], [fam[-1], c], [fam[0], {"html": hv}]],
        st.sampled_from([["x", "x_"], ["class", "class_"], ["data_a", "data-a"], ["title"]]),
        gen.any_text(),
        gen.any_text(),
        st.one_of(gen.any_text(), st.sampled_from([None, True, 3])),
        st.sampled_from(BENIGN_HTML),
    )
    boolish = st.builds(lambda n, up: [[n, n.upper() if up else n]], st.sampled_from(BOOLEAN_ATTRS), st.booleans())
    # state-like attributes given real booleans / None (True -> empty value, False / None -> omitted, whatever the name)
    flagged = st.builds(
        lambda n, v, n2, v2: [[n, v], [n2, v2]],
        st.sampled_from(["aria_hidden", "aria-pressed", "ARIA_busy", "data_flag", "hidden", "contenteditable", "draggable", "spellcheck", "translate", "autocomplete"]),
        st.sampled_from([True, False, None, "true", "false"]),
        st.sampled_from(["aria_label", "aria-expanded", "role", "x"]),
        st.sampled_from([True, False, 'a"b', None]),
    )
    return st.one_of(plain, plain, plain, triple, boolish, flagged)


def spread():
    """several values for ONE attribute spread over separate positional dicts (a dict cannot repeat a key): two or
    three plain values, then an HTML() one, optionally more afterwards"""
    return st.builds(
        lambda fam, plains, hv, tail: [[[fam[i % len(fam)], v]] for i, v in enumerate(plains)] + [[[fam[0], {"html": hv}]]] + [[[fam[-1], v]] for v in tail],
        st.sampled_from([["x", "x_"], ["class", "class_"], ["data_a", "data-a"], ["title"], ["style"]]),
        st.lists(st.one_of(gen.any_text(), gen.hot_text(2), st.sampled_from([3, True])), min_size=2, max_size=3),
        st.sampled_from(BENIGN_HTML),
        st.lists(gen.any_text(), max_size=1),
    )


def steps():
    upd = st.tuples(st.just("update"), st.one_of(st.lists(pairs(), max_size=2), st.lists(pairs(), max_size=2), spread()), pairs(2)).map(list)
    setitem = st.tuples(st.just("set"), raw_names(), values()).map(list)
    addc = st.tuples(st.just("add_class"), str_values(), st.booleans()).map(list)
    adds = st.tuples(st.just("add_style"), str_values(), st.booleans()).map(list)
    return st.lists(st.one_of(upd, setitem, addc, addc, adds), max_size=4)


def case_strategy():
    return st.fixed_dictionaries(
        {
            "ctor": st.tuples(st.one_of(st.lists(pairs(), max_size=3), st.lists(pairs(), max_size=3), spread()), pairs(3)).map(list),
            "steps": steps(),
            "void": st.booleans(),
            # the element the attributes sit on: escaping is a property of the attribute writer, whatever the element
            "elem": st.one_of(
                st.none(),
                st.none(),
                st.sampled_from(["script", "style", "textarea", "pre", "title", "svg", "a", "option", "template", "br", "meta", "link", "body", "html", "head"]),
                st.sampled_from(gen.catalogue_names()),
                gen.CUSTOM_NAME,
            ).filter(lambda n: n is None or not ("div".startswith(n) or "span".startswith(n))),
            "wrap": st.integers(0, 2),
            "kid": st.booleans(),
            "prior": st.booleans(),
        }
    )


def val_obj(v):
    import htmltools as h

    if isinstance(v, dict) and "strsub" in v:
        from hv.build import StrSub

        return StrSub(v["strsub"])
    if isinstance(v, dict):
        return h.HTML(v["html"])
    return v


def part_of(v):
    if v is None or v is False:
        return None
    if v is True:
        return ("plain", "")
    if isinstance(v, dict) and "strsub" in v:
        return ("plain", v["strsub"])
    if isinstance(v, dict):
        return ("html", v["html"])
    if isinstance(v, str):
        return ("plain", v)
    return ("plain", str(v))


def _kw(pairs_):
    """keyword arguments: a dict cannot repeat a key, the later one wins like in a real call site"""
    d = {}
    for raw, v in pairs_:
        d[raw] = v
    return list(d.items())


def merge_call(model: dict, seq):
    acc: dict = {}
    for raw, v in seq:
        p = part_of(v)
        if p is None:
            continue
        acc.setdefault(gen.norm_attr_name(raw), []).append(p)
    for k, parts in acc.items():
        model[k] = parts  # dict semantics: existing key keeps its position


def dict_pairs(d_pairs):
    """a positional dict: later duplicate raw keys overwrite (it is a Python dict)"""
    return _kw(d_pairs)


def run_history(case):
    """Returns (tag, model) after applying the history to a real tag and to the parts model."""
    import htmltools as h

    model: dict = {}
    dicts, kw = case["ctor"]
    dicts = [dict_pairs(d) for d in dicts]
    kw = _kw(kw)
    name = case.get("elem") or ("input" if case["void"] else TARGET)
    kids = ["k"] if case["kid"] else []
    tag = h.Tag(name, *[{r: val_obj(v) for r, v in d} for d in dicts], *kids, **{r: val_obj(v) for r, v in kw})
    merge_call(model, [p for d in dicts for p in d] + kw)
    feats = set()
    for st_ in case["steps"]:
        op = st_[0]
        feats.add(op)
        if op == "update":
            ds = [dict_pairs(d) for d in st_[1]]
            k2 = _kw(st_[2])
            tag.attrs.update(*[{r: val_obj(v) for r, v in d} for d in ds], **{r: val_obj(v) for r, v in k2})
            merge_call(model, [p for d in ds for p in d] + k2)
        elif op == "set":
            tag.attrs[st_[1]] = val_obj(st_[2])
            p = part_of(st_[2])
            if p is not None:
                model[gen.norm_attr_name(st_[1])] = [p]
        elif op in ("add_class", "add_style"):
            key = "class" if op == "add_class" else "style"
            v = st_[1]
            if op == "add_style":
                v = {"html": v["html"] + ";"} if isinstance(v, dict) else v + ";"
            r = (tag.add_class if op == "add_class" else tag.add_style)(val_obj(v), prepend=st_[2])
            check(r is tag, f"{op} did not return the tag")
            old = model.get(key, [])
            new = [part_of(v)]
            model[key] = (new + old) if st_[2] else (old + new)
    return tag, model, feats


def _plain_values(case):
    out = []

    def add(pairs_):
        for _, v in pairs_:
            if isinstance(v, str):
                out.append(v)

    for d in case["ctor"][0]:
        add(d)
    add(case["ctor"][1])
    for st_ in case["steps"]:
        if st_[0] == "update":
            for d in st_[1]:
                add(d)
            add(st_[2])
        elif st_[0] == "set":
            add([[st_[1], st_[2]]])
        elif isinstance(st_[1], str):
            out.append(st_[1])
    return out


def walk_open_tag(out: str, pos: int, name: str, model: dict, label: str):
    lit = "<" + name
    check(out.startswith(lit, pos), f"{label}: open tag not found", out)
    cur = {pos + len(lit)}
    for an, parts in model.items():
        lit = f' {an}="'
        cur = {p + len(lit) for p in cur if out.startswith(lit, p)}
        check(bool(cur), f"{label}: expected attribute {an!r} next", out)
        for i, (kind, text) in enumerate(parts):
            if i > 0:
                cur = {p + 1 for p in cur if out.startswith(" ", p)}
                check(bool(cur), f"{label}: parts of {an!r} not separated by a single space", out)
            if kind == "plain":
                nxt = set()
                for p in cur:
                    nxt |= E.match(out, p, text, META, META)
                if not nxt:
                    p = min(cur)
                    check(
                        False,
                        f"{label}: plain value {text!r} of attribute {an!r} is not emitted as inert data: "
                        + E.explain(out, p, text, META, META),
                        out,
                    )
                cur = nxt
            else:
                cur = {p + len(text) for p in cur if out.startswith(text, p)}
                check(bool(cur), f"{label}: HTML() value {text!r} of attribute {an!r} not emitted verbatim", out)
        cur = {p + 1 for p in cur if out.startswith('"', p)}
        check(bool(cur), f"{label}: value of {an!r} not closed where expected", out)
    ends = {p + 1 for p in cur if out.startswith(">", p)} | {p + 2 for p in cur if out.startswith("/>", p)}
    check(bool(ends), f"{label}: open tag does not end after the last expected attribute (extra attribute or broken value)", out)
    return ends


def body_history(case, note):
    import json as _json

    import htmltools as h

    if case.get("prior"):
        # history: the same characters were rendered earlier in this process as text children / trusted markup
        for v in _plain_values(case):
            h.Tag("p", v).get_html_string()
            h.Tag("p", v, "x").get_html_string()
            h.TagList(h.HTML(v), v).get_html_string()
            h.html_escape(v)
    tag, model, feats = run_history(case)
    name = tag.name
    outs = [("get_html_string", tag.get_html_string()), ("str(tag)", str(tag))]
    root = tag
    for i in range(case["wrap"]):
        root = h.Tag("div" if i % 2 == 0 else "span", "t", root, "u", _add_ws=(i % 2 == 0), title="w")
    if root is not tag:
        o = root.get_html_string()
        outs.append(("nested", o[o.index("<" + name) :] if ("<" + name) in o else o))
    for label, out in outs:
        walk_open_tag(out, 0, name, model, label)
    # tokenizer read-back when every HTML() part is benign
    benign = all(not (set(t) & set("\"<>'")) for parts in model.values() for k, t in parts if k == "html")
    plain_parts = [t for parts in model.values() for k, t in parts if k == "plain"]
    if benign:
        tok = T.tokenize(outs[0][1])[0]
        exp = [
            (an, " ".join(t if k == "plain" else _html.unescape(t) for k, t in parts)) for an, parts in model.items()
        ]
        got = [(k, "" if v is None else v) for k, v in tok.attrs]
        check(tok.kind == "open" and got == exp, "tokenizer reads back different attributes", exp, got, outs[0][1])
    mixed = any(len({k for k, _ in parts}) == 2 for parts in model.values())
    mixed_meta = any(
        len({k for k, _ in parts}) == 2 and any(k == "plain" and META & set(t) for k, t in parts) for parts in model.values()
    )
    note(
        any(META & set(t) for t in plain_parts),
        "merged-plain-x-html" if mixed else "",
        "merged-plain-x-html-with-metachar" if mixed_meta else "",
        *["op:" + f for f in sorted(feats)],
        "benign-readback" if benign else "",
        "attrs>=3" if len(model) >= 3 else "",
        "prior-text-render" if case.get("prior") else "",
        "on-raw-text-element" if name.lower() in ("script", "style") else "",
        "on-other-element" if case.get("elem") else "",
        "str-subclass-value" if '"strsub"' in _json.dumps(case) else "",
        "two-plain-values-then-html-for-one-name" if any(len(parts) >= 3 and parts[0][0] == "plain" and parts[1][0] == "plain" and any(k == "html" for k, _ in parts[2:]) and META & set(parts[0][1]) for parts in model.values()) else "",
    )


def selftest():
    E.selftest()
    T.selftest()
    m: dict = {}
    merge_call(m, [["x", "a"], ["x_", {"html": "b"}], ["y", None], ["x", True]])
    assert m == {"x": [("plain", "a"), ("html", "b"), ("plain", "")]}, m
    assert walk_open_tag('<p x="a&quot; b " y="1">', 0, "p", {"x": [("plain", 'a"'), ("html", "b"), ("plain", "")], "y": [("plain", "1")]}, "t") == {24}


RULE = (
    "codepoints/short: as C02 but for attribute values (& < > \" ' CR LF must be references); history: a tag built from "
    "positional dicts + keywords followed by up to 4 update / item-assignment / add_class / add_style steps with plain, numeric, "
    "boolean, None and HTML() values; non-trivial = some plain part contains one of the seven metacharacters; class "
    "'merged-plain-x-html-with-metachar' is required; distinct by sha1 of the recipe"
)

CLAUSES = [
    Clause("codepoints", body_codepoints, source="enum", enum=enum_codepoints, shards_quick=8, shards_thorough=16, rule="every scalar value"),
    Clause("short", body_short, source="enum", enum=enum_short, shards_quick=4, shards_thorough=16, rule="contains a metacharacter"),
    Clause(
        "history",
        body_history,
        source="given",
        strategy=case_strategy,
        quick=1500,
        thorough=20000,
        shards_quick=4,
        required=("merged-plain-x-html-with-metachar", "op:update", "op:set", "op:add_class", "op:add_style", "benign-readback", "prior-text-render", "on-raw-text-element", "on-other-element", "str-subclass-value", "two-plain-values-then-html-for-one-name"),
        rule="a plain part with a metacharacter",
        fuzz=60000,
    ),
]
