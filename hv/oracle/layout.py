"""L - reference layout renderer, written from the Note in the Tag docstring and the C06
statement as a *line-list construction* (structurally unlike the library's
prev_was_add_ws state machine).  Works on recipes; plain text and attribute values
must be free of markup metacharacters (so that escaping plays no role).

Node kinds: tag{name, ws, attrs[[name, value]], kids}, text{s}, html{s}, repr{s},
meta / dep / headc (metadata: leave no trace), none (dropped).
"""

from __future__ import annotations

VOID = (
    "area", "base", "br", "col", "command", "embed", "hr", "img", "input", "keygen",
    "link", "meta", "param", "source", "track", "wbr",
)
METAKINDS = ("meta", "dep", "headc", "none")


def is_meta(n) -> bool:
    return n["k"] in METAKINDS


def is_block(n) -> bool:
    return n["k"] == "tag" and bool(n["ws"])


def contains_block(n) -> bool:
    if n["k"] != "tag":
        return False
    if n["ws"]:
        return True
    return any(contains_block(k) for k in n["kids"])


def open_tag(n) -> str:
    s = "<" + n["name"]
    for k, v in n.get("attrs", []):
        s += f' {k}="{v}"'
    return s


def visible(kids):
    return [k for k in kids if not is_meta(k)]


def flat(n) -> str:
    k = n["k"]
    if k in ("text", "html", "repr"):
        return n["s"]
    if k == "num":
        return str(n["v"])
    if is_meta(n):
        return ""
    kids = visible(n["kids"])
    if not kids and n["name"] in VOID:
        return open_tag(n) + "/>"
    return open_tag(n) + ">" + "".join(flat(c) for c in kids) + "</" + n["name"] + ">"


def block_lines(n, level: int) -> list:
    """Lines of a tag rendered in block position at indentation ``level``."""
    ind = "  " * level
    if not is_block(n):
        return [ind + flat(n)]
    kids = visible(n["kids"])
    close = "</" + n["name"] + ">"
    if not kids:
        return [ind + flat(n)]
    if len(kids) == 1 and kids[0]["k"] in ("text", "html", "num"):
        return [ind + open_tag(n) + ">" + flat(kids[0]) + close]
    return [ind + open_tag(n) + ">"] + child_lines(kids, level + 1) + [ind + close]


def child_lines(kids, level: int, first_indent: bool = True) -> list:
    """Sibling rule: each maximal run of adjacent non-block nodes is one line, each block child
    is laid out by block_lines."""
    ind = "  " * level
    lines: list = []
    run = None
    for c in visible(kids):
        if is_block(c):
            if run is not None:
                lines.append(run)
                run = None
            lines.extend(block_lines(c, level))
        else:
            if run is None:
                run = ind if (first_indent or lines) else ""
            run += flat(c)
    if run is not None:
        lines.append(run)
    return lines


def render_tag(n, indent: int = 0, eol: str = "\n") -> str:
    return eol.join(block_lines(n, indent))


def render_list(kids, indent: int = 0, eol: str = "\n", add_ws: bool = True) -> str:
    return eol.join(child_lines(kids, indent, first_indent=add_ws))


def selftest() -> None:
    t = lambda s: {"k": "text", "s": s}
    span = {"k": "tag", "name": "span", "ws": False, "attrs": [], "kids": [t("a")]}
    div = {"k": "tag", "name": "div", "ws": True, "attrs": [["id", "x"]], "kids": [t("b"), span, {"k": "meta"}]}
    outer = {"k": "tag", "name": "div", "ws": True, "attrs": [], "kids": [t("c"), div, span, {"k": "tag", "name": "br", "ws": True, "attrs": [], "kids": []}]}
    assert flat(span) == "<span>a</span>"
    assert render_tag(div) == '<div id="x">\n  b<span>a</span>\n</div>'
    assert render_tag(outer, 1) == '  <div>\n    c\n    <div id="x">\n      b<span>a</span>\n    </div>\n    <span>a</span>\n    <br/>\n  </div>', render_tag(outer, 1)
    assert render_list([span, t("x"), div], 0, "\n", add_ws=False).startswith("<span>a</span>x\n<div")
    assert render_tag({"k": "tag", "name": "p", "ws": True, "attrs": [], "kids": [t("hi")]}, 2) == "    <p>hi</p>"
