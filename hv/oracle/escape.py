"""E - lock-step escape matcher.

match(out, pos, text, must, may) walks ``text`` character by character over ``out``
starting at ``pos``:

* c in must         -> out must hold a character reference (&name; / &#d; / &#xh;) that
                       decodes to exactly c;
* c in may - must   -> either c itself or such a reference;
* otherwise         -> c itself.

Returns the set of possible end positions (empty = mismatch).  With must == may the
walk is deterministic.  The spelling of a reference is not fixed (&apos; vs &#39;), so
a correct refactor cannot trip it, while an un-escaped, double-escaped, dropped,
duplicated or reordered character does.
"""

from __future__ import annotations

import html as _html
import re

_REF = re.compile(r"&(?:#[0-9]{1,7}|#[xX][0-9a-fA-F]{1,6}|[A-Za-z][A-Za-z0-9]{1,31});")

TEXT_META = frozenset("&<>")
ATTR_META = frozenset("&<>\"'\r\n")


def ref_at(out: str, pos: int):
    """If a well-formed character reference starts at pos, return (end, decoded) else None."""
    m = _REF.match(out, pos)
    if not m:
        return None
    dec = _html.unescape(m.group(0))
    if dec == m.group(0):
        return None  # unknown name: not a reference
    return m.end(), dec


def match(out: str, pos: int, text: str, must=TEXT_META, may=None) -> set:
    if may is None:
        may = must
    cur = {pos}
    n = len(out)
    for c in text:
        nxt = set()
        for p in cur:
            if p >= n:
                continue
            if c not in must and out[p] == c:
                nxt.add(p + 1)
            if (c in must or c in may) and out[p] == "&":
                r = ref_at(out, p)
                if r is not None and r[1] == c:
                    nxt.add(r[0])
        if not nxt:
            return nxt
        cur = nxt
    return cur


def match_end(out: str, pos: int, text: str, must=TEXT_META, may=None):
    """Deterministic variant: the unique end position, or None."""
    ends = match(out, pos, text, must, may)
    if len(ends) == 1:
        return next(iter(ends))
    if not ends:
        return None
    return max(ends)


def explain(out: str, pos: int, text: str, must=TEXT_META, may=None) -> str:
    """First character of ``text`` at which the walk fails (for messages)."""
    if may is None:
        may = must
    cur = {pos}
    for i, c in enumerate(text):
        nxt = match(out, 0, "", must, may)  # empty
        nxt = set()
        for p in cur:
            nxt |= match(out, p, c, must, may)
        if not nxt:
            p = min(cur)
            return f"at input char #{i} {c!r}: output continues with {out[p:p+12]!r}"
        cur = nxt
    return "ok"


def selftest() -> None:
    assert match("a&amp;b", 0, "a&b") == {7}
    assert match("a&b", 0, "a&b") == set()
    assert match("&lt;&gt;", 0, "<>") == {8}
    assert match("&amp;amp;", 0, "&amp;") == {9}
    assert match("&amp;", 0, "&amp;") == set()  # forged / unescaped
    assert match("&#38;", 0, "&") == {5}
    assert match("&#x26;", 0, "&") == {6}
    assert match("&quot;", 0, '"') == set()  # text mode: quote must stay itself
    assert match("&quot;", 0, '"', ATTR_META) == {6}
    assert match("&apos;", 0, "'", ATTR_META) == {6} and match("&#39;", 0, "'", ATTR_META) == {5}
    assert match("&#13;&#10;", 0, "\r\n", ATTR_META) == {10}
    assert match("\n", 0, "\n", ATTR_META) == set()
    assert match("ab", 0, "a") == {1}
    assert match("&amp;", 0, "&", frozenset(), ATTR_META) == {1, 5}
    assert match("&amp;", 0, "&amp;", frozenset(), ATTR_META) == {5}
    assert match("&amp;&amp;", 0, "&&") == {10}
    assert match("&lt;", 0, "&lt;") == set()
    assert "input char #1" in explain("a&b", 0, "a&b")
