"""J - reader for the JavaScript subset the JSX writer emits (whitespace-insensitive).

parse(text) -> value
  ("call", ("id", name) | ("q", name), props | None, [children])     React.createElement(...)
  ("str", text)            double-quoted literal, \\" denotes a quote
  ("arr", [values])        [ ... ]
  ("obj", [(key, value)])  { "k": v, ... }  (quoted keys)
  ("raw", text)            anything else: scanned with bracket/quote balancing up to the next
                           top-level , ) ] }   (numbers, true/false/null, jsx() expressions)
"""

from __future__ import annotations

WS = " \t\r\n"
CE = "React.createElement("


class JSError(Exception):
    pass


class Reader:
    def __init__(self, s: str) -> None:
        self.s = s
        self.i = 0

    def ws(self) -> None:
        while self.i < len(self.s) and self.s[self.i] in WS:
            self.i += 1

    def peek(self) -> str:
        return self.s[self.i] if self.i < len(self.s) else ""

    def expect(self, lit: str) -> None:
        if not self.s.startswith(lit, self.i):
            raise JSError(f"expected {lit!r} at {self.i}: {self.s[self.i:self.i+30]!r}")
        self.i += len(lit)

    def value(self):
        self.ws()
        if self.s.startswith(CE, self.i):
            return self.call()
        c = self.peek()
        if c == '"':
            return ("str", self.string())
        if c == "[":
            return self.array()
        if c == "{":
            return self.obj()
        return self.raw()

    def string(self) -> str:
        self.expect('"')
        out = []
        while True:
            if self.i >= len(self.s):
                raise JSError("unterminated string")
            c = self.s[self.i]
            if c == "\\":
                if self.i + 1 < len(self.s) and self.s[self.i + 1] == '"':
                    out.append('"')
                    self.i += 2
                    continue
                raise JSError(f"unexpected backslash in string at {self.i}")
            if c == '"':
                self.i += 1
                return "".join(out)
            if c in "\n\r\u2028\u2029":
                raise JSError("line break inside a string literal")
            out.append(c)
            self.i += 1

    def array(self):
        self.expect("[")
        items = []
        self.ws()
        if self.peek() == "]":
            self.i += 1
            return ("arr", items)
        while True:
            items.append(self.value())
            self.ws()
            if self.peek() == ",":
                self.i += 1
                continue
            self.expect("]")
            return ("arr", items)

    def obj(self):
        self.expect("{")
        items = []
        self.ws()
        if self.peek() == "}":
            self.i += 1
            return ("obj", items)
        while True:
            self.ws()
            k = self.string()
            self.ws()
            self.expect(":")
            v = self.value()
            items.append((k, v))
            self.ws()
            if self.peek() == ",":
                self.i += 1
                continue
            self.expect("}")
            return ("obj", items)

    def name(self):
        self.ws()
        if self.peek() == "'":
            j = self.s.index("'", self.i + 1)
            n = self.s[self.i + 1 : j]
            self.i = j + 1
            return ("q", n)
        j = self.i
        while j < len(self.s) and (self.s[j].isalnum() or self.s[j] in "._$"):
            j += 1
        if j == self.i:
            raise JSError(f"element name expected at {self.i}: {self.s[self.i:self.i+20]!r}")
        n = self.s[self.i : j]
        self.i = j
        return ("id", n)

    def call(self):
        self.expect(CE)
        nm = self.name()
        self.ws()
        props = None
        kids = []
        if self.peek() == ",":
            self.i += 1
            self.ws()
            o = self.obj()
            props = o[1]
            self.ws()
            while self.peek() == ",":
                self.i += 1
                kids.append(self.value())
                self.ws()
        self.expect(")")
        return ("call", nm, props, kids)

    def raw(self):
        start = self.i
        depth = 0
        pairs = {"(": ")", "[": "]", "{": "}"}
        closers = set(pairs.values())
        while self.i < len(self.s):
            c = self.s[self.i]
            if c in "'\"`":
                j = self.i + 1
                while j < len(self.s) and self.s[j] != c:
                    if self.s[j] == "\\":
                        j += 1
                    j += 1
                if j >= len(self.s):
                    raise JSError("unterminated quote in raw expression")
                self.i = j + 1
                continue
            if c in pairs:
                depth += 1
            elif c in closers:
                if depth == 0:
                    break
                depth -= 1
            elif c == "," and depth == 0:
                break
            self.i += 1
        text = self.s[start : self.i].strip()
        if not text:
            raise JSError(f"empty expression at {start}")
        return ("raw", text)


def parse(text: str):
    r = Reader(text)
    v = r.value()
    r.ws()
    if r.i != len(text):
        raise JSError(f"trailing text after expression: {text[r.i:r.i+40]!r}")
    return v


def selftest() -> None:
    assert parse("React.createElement(Foo)") == ("call", ("id", "Foo"), None, [])
    v = parse('React.createElement(\n Foo, {"a": 1, "b": "x\\"y", "c": [1, true, null], "d": {"k": () => f(1, 2)}},\n "t",\n React.createElement(\'div\', {}))')
    assert v == (
        "call",
        ("id", "Foo"),
        [("a", ("raw", "1")), ("b", ("str", 'x"y')), ("c", ("arr", [("raw", "1"), ("raw", "true"), ("raw", "null")])), ("d", ("obj", [("k", ("raw", "() => f(1, 2)"))]))],
        [("str", "t"), ("call", ("q", "div"), [], [])],
    ), v
    assert parse("x => `a, ${b}` + ')'") == ("raw", "x => `a, ${b}` + ')'")
    try:
        parse('"a\\nb"')
        raise AssertionError("backslash accepted")
    except JSError:
        pass
