"""T - a small HTML5-style tokenizer, written from the HTML syntax (WHATWG 13.2.5), not
from the library.  Case preserving.  Does not do tree construction, RCDATA switching
for title/textarea, CR/LF normalisation or NUL replacement (see DESIGN.md 1.7).

tokenize(s) -> list of Token
  Token.kind in {"text","open","close","comment","doctype","bogus"}
  text : .raw (source slice), .data (character references decoded)
  open : .name, .attrs = [(name, decoded value | None)], .selfclosing, .raw
  close: .name
Adjacent text tokens are merged.  Content of <script>/<style> is raw text (not decoded)
up to a case-insensitive "</name" followed by whitespace, "/" or ">".
"""

from __future__ import annotations

import html as _html
from dataclasses import dataclass, field
from typing import Optional

WS = "\t\n\f\r "
RAWTEXT = {"script", "style"}


@dataclass
class Token:
    kind: str
    name: str = ""
    attrs: list = field(default_factory=list)
    selfclosing: bool = False
    raw: str = ""
    data: str = ""
    start: int = 0
    end: int = 0
    rawtext: bool = False  # text token that is the content of script/style

    def __repr__(self) -> str:  # compact, for messages
        if self.kind == "text":
            return f"text({self.data!r})"
        if self.kind == "open":
            return f"open({self.name}{' ' if self.attrs else ''}{self.attrs if self.attrs else ''}{'/' if self.selfclosing else ''})"
        if self.kind == "close":
            return f"close({self.name})"
        return f"{self.kind}({self.raw!r})"


def _is_alpha(c: str) -> bool:
    return ("a" <= c <= "z") or ("A" <= c <= "Z")


def tokenize(s: str) -> list[Token]:
    toks: list[Token] = []
    n = len(s)
    i = 0
    text_start = 0

    def flush_text(upto: int, rawtext: bool = False) -> None:
        nonlocal text_start
        if upto > text_start:
            raw = s[text_start:upto]
            data = raw if rawtext else _html.unescape(raw)
            if toks and toks[-1].kind == "text" and toks[-1].rawtext == rawtext:
                t = toks[-1]
                t.raw += raw
                t.data = t.raw if rawtext else _html.unescape(t.raw)
                t.end = upto
            else:
                toks.append(Token("text", raw=raw, data=data, start=text_start, end=upto, rawtext=rawtext))
        text_start = upto

    while i < n:
        c = s[i]
        if c != "<":
            i += 1
            continue
        # c == "<"
        if i + 1 >= n:
            i += 1
            continue
        d = s[i + 1]
        if _is_alpha(d):
            flush_text(i)
            j, tok = _read_tag(s, i, closing=False)
            if tok is None:  # EOF inside tag: the rest is dropped by a real tokenizer
                toks.append(Token("bogus", raw=s[i:], start=i, end=n))
                text_start = n
                i = n
                break
            toks.append(tok)
            i = j
            text_start = i
            lname = tok.name.lower()
            if lname in RAWTEXT:
                # raw text until an appropriate end tag
                k = _find_rawtext_end(s, i, lname)
                if k is None:
                    k = n
                i = k
                flush_text(k, rawtext=True)
                text_start = k
            continue
        if d == "/":
            if i + 2 < n and _is_alpha(s[i + 2]):
                flush_text(i)
                j, tok = _read_tag(s, i, closing=True)
                if tok is None:
                    toks.append(Token("bogus", raw=s[i:], start=i, end=n))
                    text_start = n
                    i = n
                    break
                toks.append(tok)
                i = j
                text_start = i
                continue
            if i + 2 < n and s[i + 2] == ">":
                # "</>" : parse error, nothing emitted
                flush_text(i)
                toks.append(Token("bogus", raw="</>", start=i, end=i + 3))
                i += 3
                text_start = i
                continue
            if i + 2 < n:
                # bogus comment up to ">"
                flush_text(i)
                k = s.find(">", i)
                k = n if k < 0 else k + 1
                toks.append(Token("bogus", raw=s[i:k], start=i, end=k))
                i = k
                text_start = i
                continue
            i += 1
            continue
        if d == "!":
            flush_text(i)
            if s.startswith("<!--", i):
                k = _comment_end(s, i + 4)
                toks.append(Token("comment", raw=s[i:k], start=i, end=k))
            elif s[i + 2 : i + 9].lower() == "doctype":
                k = s.find(">", i)
                k = n if k < 0 else k + 1
                toks.append(Token("doctype", raw=s[i:k], start=i, end=k))
            else:
                k = s.find(">", i)
                k = n if k < 0 else k + 1
                toks.append(Token("bogus", raw=s[i:k], start=i, end=k))
            i = k
            text_start = i
            continue
        if d == "?":
            flush_text(i)
            k = s.find(">", i)
            k = n if k < 0 else k + 1
            toks.append(Token("bogus", raw=s[i:k], start=i, end=k))
            i = k
            text_start = i
            continue
        # "<" followed by anything else is literal text
        i += 1
    flush_text(n)
    return toks


def _comment_end(s: str, i: int) -> int:
    n = len(s)
    # "<!-->" and "<!--->" are (abruptly) closed empty comments
    if s.startswith(">", i):
        return i + 1
    if s.startswith("->", i):
        return i + 2
    k = i
    while True:
        k1 = s.find("-->", k)
        k2 = s.find("--!>", k)
        cands = [x for x in (k1, k2) if x >= 0]
        if not cands:
            return n
        m = min(cands)
        return m + (3 if m == k1 and (k2 < 0 or k1 <= k2) else 4)


_ASCII_LOWER = {c: c + 32 for c in range(ord("A"), ord("Z") + 1)}


def _find_rawtext_end(s: str, i: int, lname: str) -> Optional[int]:
    low = s.translate(_ASCII_LOWER)  # ASCII case-insensitive and length-preserving (str.lower() is neither: U+0130)
    pat = "</" + lname
    k = i
    while True:
        k = low.find(pat, k)
        if k < 0:
            return None
        e = k + len(pat)
        if e >= len(s):
            return None
        if s[e] in WS or s[e] in "/>":
            return k
        k = k + 1


def _read_tag(s: str, i: int, closing: bool):
    """s[i] == '<'.  Returns (index after '>', Token) or (n, None) on EOF inside the tag."""
    n = len(s)
    j = i + (2 if closing else 1)
    st = j
    while j < n and s[j] not in WS and s[j] not in "/>":
        j += 1
    name = s[st:j]
    attrs: list = []
    selfclosing = False
    while True:
        # before attribute name
        while j < n and s[j] in WS:
            j += 1
        if j >= n:
            return n, None
        ch = s[j]
        if ch == ">":
            j += 1
            break
        if ch == "/":
            if j + 1 < n and s[j + 1] == ">":
                selfclosing = True
                j += 2
                break
            j += 1
            continue
        # attribute name (a leading "=" is part of the name)
        a0 = j
        j += 1
        while j < n and s[j] not in WS and s[j] not in "/>=":
            j += 1
        aname = s[a0:j]
        # after attribute name
        while j < n and s[j] in WS:
            j += 1
        if j >= n:
            return n, None
        if s[j] != "=":
            attrs.append((aname, None))
            continue
        j += 1
        while j < n and s[j] in WS:
            j += 1
        if j >= n:
            return n, None
        q = s[j]
        if q == '"' or q == "'":
            k = s.find(q, j + 1)
            if k < 0:
                return n, None
            val = s[j + 1 : k]
            j = k + 1
        elif q == ">":
            attrs.append((aname, ""))
            j += 1
            break
        else:
            v0 = j
            while j < n and s[j] not in WS and s[j] != ">":
                j += 1
            val = s[v0:j]
        attrs.append((aname, _html.unescape(val)))
    kind = "close" if closing else "open"
    return j, Token(kind, name=name, attrs=attrs, selfclosing=selfclosing, raw=s[i:j], start=i, end=j)


def selftest() -> None:
    def kinds(x):
        return [(t.kind, t.name or t.data or t.raw) for t in tokenize(x)]

    assert kinds("a<b>c</b>") == [("text", "a"), ("open", "b"), ("text", "c"), ("close", "b")]
    t = tokenize('<div id="x" class=\'a b\' hidden data-q=1>&amp;&lt;x</div>')
    assert t[0].attrs == [("id", "x"), ("class", "a b"), ("hidden", None), ("data-q", "1")], t[0].attrs
    assert t[1].data == "&<x"
    t = tokenize("<br/><img src='a'/>")
    assert t[0].selfclosing and t[1].selfclosing and t[1].attrs == [("src", "a")]
    t = tokenize("<script>a<b></SCRIPT >x")
    assert [x.kind for x in t] == ["open", "text", "close", "text"] and t[1].data == "a<b>" and t[1].rawtext
    t = tokenize("<!--x--><!DOCTYPE html><?pi>a < b <3")
    assert [x.kind for x in t] == ["comment", "doctype", "bogus", "text"] and t[3].data == "a < b <3"
    t = tokenize('<a title="&quot;&#10;&apos;">')
    assert t[0].attrs == [("title", "\"\n'")]
    t = tokenize("<a b")
    assert t[0].kind == "bogus"
    t = tokenize("x</ y>z")
    assert [x.kind for x in t] == ["text", "bogus", "text"]
    t = tokenize("<script>x</scriptx></script>")
    assert t[1].data == "x</scriptx>"
    t = tokenize('<p a="1"b="2">')
    assert t[0].attrs == [("a", "1"), ("b", "2")]
    t = tokenize('<a id="\u0130\u0130"></a><script>x</SCRIPT>y')
    assert [x.kind for x in t] == ["open", "close", "open", "text", "close", "text"] and t[3].data == "x"
