"""S - structural snapshot of everything reachable from an object (cycle-safe), as nested
hashable tuples, plus id-sets of the tree objects.  Structural: replacing a child by an
equal copy is not a change."""

from __future__ import annotations

from typing import Any

IGNORED_FIELDS = {"calls"}  # harness-side call counters of Tfy objects


def snap(x: Any, _stack=None) -> Any:
    import htmltools as h
    from htmltools import _jsx

    if _stack is None:
        _stack = set()
    if x is None or isinstance(x, (bool, int, float)):
        return (type(x).__name__, repr(x))
    if isinstance(x, _jsx.jsx):
        return ("jsx", str(x))
    if isinstance(x, str):
        return ("str", x) if type(x) is str else (type(x).__name__, str(x))
    if isinstance(x, bytes):
        return ("bytes", x)
    i = id(x)
    if i in _stack:
        return ("cycle",)
    _stack.add(i)
    try:
        if isinstance(x, h.HTML):
            return ("HTML", x.data)
        if isinstance(x, h.TagList):
            return ("TagList", type(x).__name__, tuple(snap(c, _stack) for c in x.data))
        if isinstance(x, h.Tag):
            attrs = tuple((k, type(v).__name__, str(v)) for k, v in x.attrs.items())
            rest = tuple(sorted((k, snap(v, _stack)) for k, v in x.__dict__.items() if k not in ("name", "add_ws", "attrs", "children")))
            return ("Tag", type(x).__name__, x.name, x.add_ws, type(x.attrs).__name__, attrs, snap(x.children, _stack), rest)
        if isinstance(x, _jsx.JSXTag):
            attrs = tuple((k, snap(v, _stack)) for k, v in x.attrs.items())
            rest = tuple(sorted((k, snap(v, _stack)) for k, v in x.__dict__.items() if k not in ("name", "attrs", "children")))
            return ("JSXTag", x.name, type(x.attrs).__name__, attrs, snap(x.children, _stack), rest)
        if isinstance(x, h.HTMLDependency):
            d = dict(x.__dict__)
            ver = str(d.pop("version", None))
            return ("Dep", type(x).__name__, ver, tuple(sorted((k, snap(v, _stack)) for k, v in d.items())))
        if isinstance(x, h.MetadataNode):
            return ("Meta", type(x).__name__, tuple(sorted((k, snap(v, _stack)) for k, v in x.__dict__.items())))
        if isinstance(x, (h.HTMLDocument, h.HTMLTextDocument)):
            return ("Doc", type(x).__name__, tuple(sorted((k, snap(v, _stack)) for k, v in x.__dict__.items())))
        if isinstance(x, dict):
            return ("dict", type(x).__name__, tuple((snap(k, _stack), snap(v, _stack)) for k, v in x.items()))
        if isinstance(x, (list, tuple)):
            return (type(x).__name__, tuple(snap(v, _stack) for v in x))
        if isinstance(x, (set, frozenset)):
            return (type(x).__name__, tuple(sorted(repr(v) for v in x)))
        if hasattr(x, "__dict__") and type(x).__module__.startswith("hv."):
            return ("obj", type(x).__name__, tuple(sorted((k, snap(v, _stack)) for k, v in x.__dict__.items() if k not in IGNORED_FIELDS)))
        if hasattr(x, "__dict__") and not callable(x):
            return ("obj", type(x).__name__, tuple(sorted((k, snap(v, _stack)) for k, v in x.__dict__.items())))
        return ("opaque", type(x).__name__, id(x))
    finally:
        _stack.discard(i)


def tree_ids(x: Any, out=None, _seen=None) -> dict:
    """id()s of the Tag, TagList, TagAttrDict and MetadataNode objects of a tree."""
    import htmltools as h

    if out is None:
        out = {"Tag": set(), "TagList": set(), "TagAttrDict": set(), "MetadataNode": set()}
        _seen = set()
    if id(x) in _seen:
        return out
    _seen.add(id(x))
    if isinstance(x, h.Tag):
        out["Tag"].add(id(x))
        out["TagAttrDict"].add(id(x.attrs))
        tree_ids(x.children, out, _seen)
    elif isinstance(x, h.TagList):
        out["TagList"].add(id(x))
        for c in x.data:
            tree_ids(c, out, _seen)
    elif isinstance(x, h.MetadataNode):
        out["MetadataNode"].add(id(x))
    elif isinstance(x, h.HTMLDocument):
        tree_ids(x._content, out, _seen)
    return out


def selftest() -> None:
    import htmltools as h

    a = h.Tag("div", "x", h.Tag("span", h.HTML("<b>"), id="1"), h.HTMLDependency("n", "1.0", head="q"), class_="c")
    b = h.Tag("div", "x", h.Tag("span", h.HTML("<b>"), id="1"), h.HTMLDependency("n", "1.0", head="q"), class_="c")
    assert snap(a) == snap(b)
    b.children[1].attrs["id"] = "2"
    assert snap(a) != snap(b)
    c = h.Tag("div", "<b>")
    d = h.Tag("div", h.HTML("<b>"))
    assert snap(c) != snap(d)
    ids = tree_ids(a)
    assert len(ids["Tag"]) == 2 and len(ids["TagList"]) == 2 and len(ids["MetadataNode"]) == 1
