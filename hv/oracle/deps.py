"""D - dependency model: collection order, resolution, URL construction, head markup.

Written from the documented behaviour (C10-C13 statements), never by calling library
logic.  Works on dependency *recipes* (dicts: name, version, source, script,
stylesheet, meta, head, all_files).
"""

from __future__ import annotations

import re
from typing import Any, Optional

_SUFFIX = re.compile(r"^(\d+(?:\.\d+)*)(?:(a|b|rc)(\d+))?(?:\.post(\d+))?(?:\.dev(\d+))?$")


def vkey(v: str) -> tuple:
    """Ordering key for the version strings the generators emit: N(.N)* with optional PEP 440
    pre / post / dev suffix.  Release compared as an integer tuple with trailing zeros
    insignificant (1.10 == 1.10.0, 1.9 < 1.10); dev < a < b < rc < final < post."""
    m = _SUFFIX.match(v)
    if not m:
        raise ValueError("version outside the modelled grammar: %r" % v)
    rel = [int(x) for x in m.group(1).split(".")]
    while len(rel) > 1 and rel[-1] == 0:
        rel.pop()
    pre = {"a": 0, "b": 1, "rc": 2}
    if m.group(2):
        prek = (pre[m.group(2)], int(m.group(3)))
    elif m.group(5) is not None and m.group(4) is None:
        prek = (-1, 0)  # X.devN sorts before any pre-release of X
    else:
        prek = (3, 0)
    postk = int(m.group(4)) if m.group(4) is not None else -1
    devk = int(m.group(5)) if m.group(5) is not None else 10**9
    return (tuple(rel), prek, postk, devk)


def resolve(items: list, name=lambda d: d["name"], version=lambda d: d["version"]) -> list:
    """One per name, the highest version, earliest on ties, names by first occurrence."""
    order: list = []
    best: dict = {}
    for d in items:
        n = name(d)
        if n not in best:
            order.append(n)
            best[n] = d
        elif vkey(version(d)) > vkey(version(best[n])):
            best[n] = d
    return [best[n] for n in order]


def preorder(nodes: list) -> list:
    """Dependency recipes of a forest in document order (head_content items included, as
    {"k":"headc"} recipes).  Tfy expansions and nested lists are followed."""
    out: list = []
    for n in nodes:
        k = n["k"]
        if k in ("dep", "headc"):
            out.append(n)
        elif k in ("tag", "list"):
            out.extend(preorder(n["kids"]))
        elif k == "tfy":
            r = n["res"]
            out.extend(preorder([r]))
    return out


# ---------------------------------------------------------------- URLs

_UNRESERVED = set(b"ABCDEFGHIJKLMNOPQRSTUVWXYZabcdefghijklmnopqrstuvwxyz0123456789-._~/")


def pct(path: str) -> str:
    """RFC 3986 percent-encoding of a relative path: utf-8 bytes, unreserved and '/' kept."""
    return "".join(chr(b) if b in _UNRESERVED else "%%%02X" % b for b in path.encode("utf-8"))


def join(base: str, rel: str) -> str:
    """POSIX-style join as used for URLs: an absolute ``rel`` replaces the base."""
    if rel.startswith("/"):
        return rel
    if base == "" or base.endswith("/"):
        return base + rel
    return base + "/" + rel


def href_base(dep: dict, lib_prefix: Optional[str], include_version: bool, version_str: Optional[str] = None) -> str:
    src = dep.get("source")
    if src is None:
        return ""
    if "href" in src:
        return src["href"]
    h = dep["name"]
    if include_version:
        h += "-" + (version_str if version_str is not None else dep["version"])
    if lib_prefix:
        h = join(lib_prefix, h)
    return h


def url(dep: dict, path: str, lib_prefix: Optional[str] = "lib", include_version: bool = True, version_str: Optional[str] = None) -> str:
    return join(href_base(dep, lib_prefix, include_version, version_str), pct(path))


def as_list(x: Any) -> list:
    if x is None:
        return []
    if isinstance(x, dict):
        return [x]
    return list(x)


# ---------------------------------------------------------------- head markup (C11 / C13)


def _tag(name: str, attrs: list, kids=None) -> dict:
    return {"k": "tag", "name": name, "ws": True, "attrs": [list(a) for a in attrs], "kids": kids or []}


def markup(dep: dict, lib_prefix: Optional[str] = "lib", include_version: bool = True, version_str: Optional[str] = None) -> list:
    """Node recipes a dependency contributes to <head>: meta, link, script elements, then its head payload.
    Stylesheet items must not carry their own 'rel' (the generators never emit one)."""
    out: list = []
    for m in as_list(dep.get("meta")):
        out.append(_tag("meta", [[k, v] for k, v in m.items()]))
    for s in as_list(dep.get("stylesheet")):
        attrs = [[k, (url(dep, v, lib_prefix, include_version, version_str) if k == "href" else v)] for k, v in s.items()]
        if "rel" not in s:
            attrs.append(["rel", "stylesheet"])
        out.append(_tag("link", attrs))
    for s in as_list(dep.get("script")):
        attrs = [[k, (url(dep, v, lib_prefix, include_version, version_str) if k == "src" else v)] for k, v in s.items()]
        out.append(_tag("script", attrs))
    head = dep.get("head")
    if head is None:
        pass
    elif isinstance(head, str):
        out.append({"k": "html", "s": head})
    elif isinstance(head, dict) and "k" not in head and "html" in head:
        out.append({"k": "html", "s": head["html"]})
    elif isinstance(head, list):
        out.extend(head)
    else:
        out.append(head)
    return out


def listing(deps: list, version_of=lambda d: d["version"]) -> str:
    return ";".join(d["name"] + "[" + version_of(d) + "]" for d in deps)


def listing_tag(deps: list, version_of=lambda d: d["version"]) -> dict:
    return _tag("script", [["type", "application/html-dependencies"]], [{"k": "text", "s": listing(deps, version_of)}])
