"""recipe -> htmltools objects, through public constructors and methods only.

Node recipes are plain JSON values (dict with key "k"):

  {"k":"tag","name":n,"ws":bool,"attrs":[[rawname,val],...],"kids":[node...]}
  {"k":"text","s":str}   {"k":"num","v":int|float}   {"k":"html","s":str}
  {"k":"repr","s":str,"h":bool}        object with _repr_html_() -> s (HTML(s) if h)
  {"k":"meta"}                          bare MetadataNode
  {"k":"dep", name, version, source?, script?, stylesheet?, meta?, head?, all_files?}
  {"k":"headc","kids":[node...]}       head_content(*kids)
  {"k":"tfy","res":node|list-node,"repr":bool}   object with tagify() (and _repr_html_ if repr)
  {"k":"list","t":"list"|"tuple"|"taglist","kids":[node...]}   nested sequence (flattened by the library)
  {"k":"none"}                          None child

attribute value recipes: str | int | float | true | false | null | {"html": str}
"""

from __future__ import annotations

from typing import Any


def H():
    import htmltools

    return htmltools


class Repr:
    """Self-rendering object: only has _repr_html_."""

    def __init__(self, s: str, as_html: bool = False) -> None:
        self.s = s
        self.as_html = as_html

    def _repr_html_(self):
        if self.as_html:
            return H().HTML(self.s)
        return self.s


class ReprIter(Repr):
    """Self-rendering *and* iterable (a table / data-frame like object): still one node, rendered by _repr_html_"""

    def __iter__(self):
        return iter(["row-1", "row-2"])

    def __len__(self):
        return 2


class StrSub(str):
    """a str subclass instance (StrEnum member, typed id string): a plain string for every purpose"""


class Tfy:
    """Tagifiable object: tagify() builds its declared expansion, fully tagified."""

    def __init__(self, res: Any, raw: bool = False) -> None:
        self.res = res
        self.raw = raw  # return the expansion as built (JSX tests do this)
        self.calls = 0

    def tagify(self):
        self.calls += 1
        obj = build(self.res)
        if self.raw:
            return obj
        if isinstance(obj, (H().Tag, H().TagList)):
            return obj.tagify()
        return obj


class TfyStored(Tfy):
    """Returns the *same* stored, already tagified expansion on every call (a component that keeps its rendered tag)."""

    def __init__(self, res: Any, raw: bool = False) -> None:
        super().__init__(res, raw)
        self._stored = None

    def tagify(self):
        self.calls += 1
        if self._stored is None:
            self._stored = Tfy(self.res, self.raw).tagify()
        return self._stored


class TfyStr(str):
    """A str *subclass* that is tagifiable (lazy string / message key with its own tagify())."""

    def __new__(cls, res: Any):
        o = super().__new__(cls, "lazy-string-not-expanded")
        o.res = res
        return o

    def tagify(self):
        return Tfy(self.res).tagify()


class TfyIter(Tfy):
    """A tagifiable container component that can also be iterated (but is not a list / tuple / TagList)."""

    def __iter__(self):
        return iter(["iterated-item-1", "iterated-item-2"])


class FlakyError(Exception):
    """raised by user code (a tagify() that fails the first time it is asked)"""


FLAKY_SEEN: set = set()


class TfyFlaky(Tfy):
    """tagify() fails the first time the component described by this recipe node is asked (a data source that was
    not ready yet), and works from then on.  State is kept per recipe node (key), not per object, so that objects
    rebuilt from the same recipe inside other expansions do not fail again."""

    def __init__(self, res: Any, key: int) -> None:
        super().__init__(res)
        self.key = key

    def tagify(self):
        if self.key not in FLAKY_SEEN:
            FLAKY_SEEN.add(self.key)
            raise FlakyError("not ready yet")
        return super().tagify()


class TfyListSub(Tfy):
    """tagify() returns an instance of a user-defined TagList *subclass*"""

    def tagify(self):
        h = H()
        res = super().tagify()
        if h not in _LISTSUB:
            _LISTSUB[h] = type("RowList", (h.TagList,), {})
        if isinstance(res, h.TagList):
            return _LISTSUB[h](*res)
        return res


_LISTSUB: dict = {}


class TfyRepr(Tfy):
    """Tagifiable *and* self-rendering."""

    def _repr_html_(self):
        return "<tfyrepr></tfyrepr>"


_TAGSUB: dict = {}


def _tagsub_class():
    """a component written as a Tag *subclass* that overrides tagify() (renders as a placeholder element unless expanded)"""
    h = H()
    if h not in _TAGSUB:

        class CardTag(h.Tag):
            def __init__(self, res):
                super().__init__("card-placeholder", "not expanded")
                self._res = res

            def tagify(self):
                return Tfy(self._res).tagify()

        _TAGSUB[h] = CardTag
    return _TAGSUB[h]


def attr_value(v: Any):
    if isinstance(v, dict):
        if "strsub" in v:
            return StrSub(v["strsub"])
        return H().HTML(v["html"])
    return v


def build_dep(r: dict):
    h = H()
    kw: dict = {}
    for key in ("source", "script", "stylesheet", "meta"):
        if r.get(key) is not None:
            kw[key] = _deepcopy_json(r[key])
    src = kw.get("source")
    if isinstance(src, dict) and isinstance(src.get("subdir"), str) and src["subdir"].startswith(("@rel:", "@abs:")):
        # a directory of the installed package addressed without a package name: "@rel:<sub>" relative to the
        # current directory, "@abs:<sub>" absolute but not in canonical form
        import os

        mode, sub = src["subdir"][1:].split(":", 1)
        full = os.path.join(os.path.dirname(h.__file__), sub)
        src["subdir"] = os.path.relpath(full) if mode == "rel" else os.path.join(full, ".", "")
    if r.get("all_files"):
        kw["all_files"] = True
    head = r.get("head")
    if head is not None:
        if isinstance(head, str):
            kw["head"] = head
        elif isinstance(head, dict) and head.get("k") is None and "html" in head:
            kw["head"] = h.HTML(head["html"])
        elif isinstance(head, list):
            kw["head"] = [build(x) for x in head]
        else:
            kw["head"] = build(head)
    return h.HTMLDependency(r["name"], r["version"], **kw)


def _deepcopy_json(x: Any) -> Any:
    if isinstance(x, dict):
        return {k: _deepcopy_json(v) for k, v in x.items()}
    if isinstance(x, list):
        return [_deepcopy_json(v) for v in x]
    return x


def build(r: Any, memo: Any = None):
    """memo: dict - recipe nodes carrying the same "share" key are built once and the *same object* is reused"""
    if memo is not None and isinstance(r, dict) and "share" in r:
        key = r["share"]
        if key not in memo:
            memo[key] = _build(r, memo)
        return memo[key]
    return _build(r, memo)


def _build(r: Any, memo: Any = None):
    h = H()
    k = r["k"]
    if k == "text":
        return StrSub(r["s"]) if r.get("sub") else r["s"]
    if k == "num":
        return r["v"]
    if k == "html":
        return h.HTML(r["s"])
    if k == "none":
        return None
    if k == "repr":
        if r.get("inst"):
            # _repr_html_ bound on the instance (functools.partial / SimpleNamespace style objects)
            import types

            text = r["s"]
            return types.SimpleNamespace(_repr_html_=lambda: text)
        if r.get("iter"):
            return ReprIter(r["s"], bool(r.get("h")))
        return Repr(r["s"], bool(r.get("h")))
    if k == "meta":
        return h.MetadataNode()
    if k == "dep":
        return build_dep(r)
    if k == "headc":
        return h.head_content(*[build(x) for x in r["kids"]])
    if k == "tfy":
        v = r.get("variant")
        if v == "stored":
            return TfyStored(r["res"], bool(r.get("raw")))
        if v == "strsub":
            return TfyStr(r["res"])
        if v == "iter":
            return TfyIter(r["res"], bool(r.get("raw")))
        if v == "flaky":
            return TfyFlaky(r["res"], id(r))
        if v == "listsub":
            return TfyListSub(r["res"], bool(r.get("raw")))
        if v == "tagsub":
            return _tagsub_class()(r["res"])
        if v == "flex":
            # an object of the plain self-rendering class Repr that *also* got a tagify() (set on the instance)
            o = Repr("<u>flex-not-expanded</u>")
            o.tagify = Tfy(r["res"]).tagify
            return o
        cls = TfyRepr if r.get("repr") else Tfy
        return cls(r["res"], bool(r.get("raw")))
    if k == "list":
        items = [build(x, memo) for x in r["kids"]]
        t = r.get("t", "list")
        if t == "tuple":
            return tuple(items)
        if t == "taglist":
            return h.TagList(*items)
        return items
    if k == "tag":
        attrs = [{a[0]: attr_value(a[1])} for a in r.get("attrs", [])]
        kids = [build(x, memo) for x in r.get("kids", [])]
        if r.get("fn"):
            # through the generated tag function (default whitespace flag unless given)
            mod = h.svg if r["fn"] == "svg" else h.tags
            f = getattr(mod, r["name"])
            if r.get("ws") is None:
                return f(*attrs, *kids)
            return f(*attrs, *kids, _add_ws=r["ws"])
        ws = r.get("ws")
        if ws is None:
            ws = True
        return h.Tag(r["name"], *attrs, *kids, _add_ws=ws)
    raise ValueError("unknown recipe kind %r" % (k,))


def build_all(rs: list) -> list:
    return [build(r) for r in rs]
